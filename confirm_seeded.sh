#!/bin/bash
# confirm_seeded.sh <PROP> <n> : independently confirm a delivered seeded change in its scratch worktree
# (builds, touched packages' existing tests pass, demo fails with the change and passes without it),
# then store it under /verif/seeded/<PROP>-<n>/.
P=$1; N=$2; WT=/tmp/wt-$P; M=/tmp/mut-$P/$N
export GOFLAGS=-mod=mod GOPROXY=off
cd $WT || exit 2
git checkout -q -- . ; git clean -fdq
echo "--- demo on clean tree (must pass)"
sh $M/run.sh > /tmp/confirm-$P-$N-clean.log 2>&1; clean=$?
git checkout -q -- . ; git clean -fdq
git apply $M/patch.diff || { echo "patch does not apply"; exit 2; }
touched=$(git diff --name-only | xargs -n1 dirname | sort -u | sed 's#^#./#')
echo "--- build"; go build ./... ; build=$?
echo "--- existing tests of touched packages: $touched"
go test -count=1 $touched > /tmp/confirm-$P-$N-tests.log 2>&1; tests=$?
grep -v "^ok" /tmp/confirm-$P-$N-tests.log | grep "^--- FAIL\|^FAIL" | head -5
echo "--- demo with change (must fail)"
sh $M/run.sh > /tmp/confirm-$P-$N-mut.log 2>&1; mut=$?
git checkout -q -- . ; git clean -fdq
echo "RESULT $P-$N: build=$build tests=$tests demo_clean=$clean demo_mutant=$mut"
if [ $build -eq 0 ] && [ $clean -eq 0 ] && [ $mut -ne 0 ]; then
  D=/verif/seeded/$P-$N; mkdir -p $D; cp $M/patch.diff $M/run.sh $M/notes.md $D/ 2>/dev/null; cp $M/*_test.go $M/*.go $D/ 2>/dev/null
  echo "stored in $D (tests exit=$tests)"
fi
