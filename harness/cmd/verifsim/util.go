package main

import (
	"strings"
	"time"
)

func nowMs() int64 { return time.Now().UnixMilli() }

func containsAll(s string, subs []string) bool {
	for _, x := range subs {
		if !strings.Contains(s, `"`+x+`"`) {
			return false
		}
	}
	return true
}
