package main

import (
	"fmt"
	"os"

	"verif/concprops"
	"verif/core"
	_ "verif/ctxprops"
	_ "verif/docstore"
	"verif/engine"
	"verif/fsprops"
	_ "verif/netprops"
	"verif/ops"
)

func main() {
	if len(os.Args) < 2 {
		fmt.Fprintln(os.Stderr, "usage: verifsim check <id> <quick|thorough> | replay <file> | survey [-v|op]")
		os.Exit(2)
	}
	code := 0
	switch os.Args[1] {
	case "survey":
		survey()
	case "check":
		if len(os.Args) < 4 {
			fmt.Fprintln(os.Stderr, "usage: verifsim check <id> <tier>")
			os.Exit(2)
		}
		code = core.CheckMain(os.Args[2], os.Args[3])
	case "worker":
		code = core.WorkerMain(os.Args[2:])
	case "replay":
		code = core.ReplayMain(os.Args[2])
	case "selftest":
		code = core.SelfTestMain(os.Args[2:])
	case "c40run":
		code = concprops.ChildMain(os.Args[2])
	case "killrun":
		code = fsprops.KillRunMain(os.Args[2])
	default:
		fmt.Fprintln(os.Stderr, "unknown command", os.Args[1])
		code = 2
	}
	engine.Cleanup()
	concprops.CleanupPool()
	os.Exit(code)
}

func survey() {
	verbose := len(os.Args) > 2
	for _, n := range ops.Names() {
		o := ops.Get(n)
		if verbose && os.Args[2] != "-v" && os.Args[2] != n {
			continue
		}
		for _, rel := range o.Rels {
			r, err := engine.Run(engine.Config{Op: n, Rel: rel}, engine.Options{})
			if err != nil {
				fmt.Printf("%-24s %-9s SETUP-ERROR %v\n", n, rel, err)
				continue
			}
			fmt.Printf("%-24s %-9s events=%-4d err=%v panic=%v leaked=%v\n", n, rel, len(r.Events), r.Err, r.Panicked, r.Leaked)
			if verbose {
				for _, e := range r.Events {
					if e.Op == "read" || e.Op == "write" {
						continue
					}
					fmt.Println("     ", e)
				}
			}
		}
	}
}

func init() {
	if len(os.Args) > 1 && os.Args[1] == "unit" {
		// verifsim unit <id> <tier> <op> <rel>: run one unit in-process with timing (debug aid)
		p := core.Get(os.Args[2])
		units, _ := p.Units(os.Args[3], core.Seed())
		for _, u := range units {
			s := string(u)
			if len(os.Args) > 4 && !containsAll(s, os.Args[4:]) {
				continue
			}
			t0 := nowMs()
			r := p.RunUnit(u, os.Args[3], core.Seed())
			fmt.Printf("%6dms evals=%-5d viol=%-3d nontrivial=%-4d trouble=%q %s\n", nowMs()-t0, r.Evaluations, len(r.Violations), len(r.Nontrivial), r.Trouble, s)
		}
		engine.Cleanup()
		os.Exit(0)
	}
}

func init() {
	if len(os.Args) > 1 && os.Args[1] == "unitv" {
		p := core.Get(os.Args[2])
		units, _ := p.Units(os.Args[3], core.Seed())
		for _, u := range units {
			s := string(u)
			if len(os.Args) > 4 && !containsAll(s, os.Args[4:]) {
				continue
			}
			r := p.RunUnit(u, os.Args[3], core.Seed())
			for _, v := range r.Violations {
				fmt.Printf("%s\n   %s\n", v.Signature, v.Detail)
			}
		}
		engine.Cleanup()
		os.Exit(0)
	}
}

func init() {
	if len(os.Args) > 1 && os.Args[1] == "sigs" {
		// verifsim sigs <id> <tier> [filters]: distinct violation signatures with counts (debug aid)
		p := core.Get(os.Args[2])
		units, _ := p.Units(os.Args[3], core.Seed())
		counts := map[string]int{}
		first := map[string]string{}
		for _, u := range units {
			s := string(u)
			if len(os.Args) > 4 && !containsAll(s, os.Args[4:]) {
				continue
			}
			r := p.RunUnit(u, os.Args[3], core.Seed())
			if r.Trouble != "" {
				fmt.Println("TROUBLE", r.Trouble)
			}
			for _, v := range r.Violations {
				counts[v.Signature]++
				if first[v.Signature] == "" {
					first[v.Signature] = v.Detail
				}
			}
		}
		for k, c := range counts {
			fmt.Printf("%4d %s\n", c, k)
		}
		engine.Cleanup()
		os.Exit(0)
	}
}
