package main

import (
	"fmt"
	"os"

	"verif/engine"
	"verif/ops"
)

func main() {
	if len(os.Args) < 2 {
		fmt.Fprintln(os.Stderr, "usage: verifsim <command> ...")
		os.Exit(2)
	}
	defer engine.Cleanup()
	switch os.Args[1] {
	case "survey":
		survey()
	default:
		fmt.Fprintln(os.Stderr, "unknown command", os.Args[1])
		os.Exit(2)
	}
}

func survey() {
	verbose := len(os.Args) > 2
	for _, n := range ops.Names() {
		o := ops.Get(n)
		if verbose && os.Args[2] != "-v" && os.Args[2] != n {
			continue
		}
		for _, rel := range o.Rels {
			r, err := engine.Run(engine.Config{Op: n, Rel: rel}, engine.Options{})
			if err != nil {
				fmt.Printf("%-24s %-9s SETUP-ERROR %v\n", n, rel, err)
				continue
			}
			fmt.Printf("%-24s %-9s events=%-4d err=%v panic=%v leaked=%v\n", n, rel, len(r.Events), r.Err, r.Panicked, r.Leaked)
			if verbose {
				for _, e := range r.Events {
					if e.Op == "read" || e.Op == "write" {
						continue
					}
					fmt.Println("     ", e)
				}
			}
		}
	}
}
