// instr adds scheduling points to the module under test, for the cooperative scheduler (C40).
//
// usage: instr <repo> <outdir> <overlay.json>
//
// Locks and file-system calls are scheduling points through the sync and os seams. Code that shares
// package state WITHOUT a lock has none, so two tasks could never be interleaved inside it - exactly
// where an unsynchronised cache or a lazily filled table goes wrong. For every package of the module
// the tool finds the package-level variables that some function of the package mutates (assigns,
// increments, takes the address of, calls a method on, passes to delete/clear/append/copy) and
// inserts a call to runtime.VerifSchedPoint() at the entry of every function that mentions one of
// them. The call is a nil check unless a schedule is running. Nothing in /repo is written: the
// rewritten files go to <outdir> and are mapped over the originals in the build overlay. Text is
// inserted on existing lines only (after the package clause and after the opening brace), so line
// numbers in stack traces and poll-site addresses do not move.
package main

import (
	"encoding/json"
	"fmt"
	"go/ast"
	"go/parser"
	"go/token"
	"os"
	"path/filepath"
	"sort"
	"strings"
)

// packages whose package state is read on every other line (logger switches) or that the harness
// replaces anyway
var skipPkgs = map[string]bool{"pkg/log": true}

type insertion struct {
	off  int
	text string
}

func osSuffixSkip(name string) bool {
	for _, s := range []string{"_windows.go", "_darwin.go", "_js.go", "_wasm.go", "_plan9.go", "_test.go"} {
		if strings.HasSuffix(name, s) {
			return true
		}
	}
	return false
}

func buildExcluded(src []byte) bool {
	for _, l := range strings.SplitN(string(src), "\n", 40) {
		l = strings.TrimSpace(l)
		if strings.HasPrefix(l, "package ") {
			break
		}
		if strings.HasPrefix(l, "//go:build") {
			expr := strings.TrimPrefix(l, "//go:build")
			if strings.Contains(expr, "windows") && !strings.Contains(expr, "!windows") {
				return true
			}
			if strings.Contains(expr, "js") && !strings.Contains(expr, "!js") {
				return true
			}
			if strings.Contains(expr, "ignore") || strings.Contains(expr, "darwin") && !strings.Contains(expr, "!darwin") && !strings.Contains(expr, "linux") {
				return true
			}
		}
	}
	return false
}

func rootIdent(e ast.Expr) *ast.Ident {
	for {
		switch x := e.(type) {
		case *ast.Ident:
			return x
		case *ast.SelectorExpr:
			e = x.X
		case *ast.IndexExpr:
			e = x.X
		case *ast.StarExpr:
			e = x.X
		case *ast.ParenExpr:
			e = x.X
		case *ast.SliceExpr:
			e = x.X
		default:
			return nil
		}
	}
}

func main() {
	if len(os.Args) < 4 {
		fmt.Fprintln(os.Stderr, "usage: instr <repo> <outdir> <overlay.json>")
		os.Exit(2)
	}
	repo, out, ovPath := os.Args[1], os.Args[2], os.Args[3]
	var dirs []string
	for _, top := range []string{"pkg", "internal"} {
		filepath.WalkDir(filepath.Join(repo, top), func(p string, d os.DirEntry, err error) error {
			if err == nil && d.IsDir() && d.Name() != "testdata" && d.Name() != "samples" && d.Name() != "test" {
				dirs = append(dirs, p)
			}
			if err == nil && d.IsDir() && (d.Name() == "testdata" || d.Name() == "samples") {
				return filepath.SkipDir
			}
			return nil
		})
	}
	replace := map[string]string{}
	nFuncs, nFiles, nVars, nStmts := 0, 0, 0, 0
	for _, dir := range dirs {
		rel, _ := filepath.Rel(repo, dir)
		if skipPkgs[rel] {
			continue
		}
		ents, _ := os.ReadDir(dir)
		fset := token.NewFileSet()
		type pf struct {
			path string
			src  []byte
			f    *ast.File
		}
		var files []pf
		for _, e := range ents {
			if e.IsDir() || !strings.HasSuffix(e.Name(), ".go") || osSuffixSkip(e.Name()) {
				continue
			}
			p := filepath.Join(dir, e.Name())
			src, err := os.ReadFile(p)
			if err != nil || buildExcluded(src) {
				continue
			}
			f, err := parser.ParseFile(fset, p, src, parser.SkipObjectResolution)
			if err != nil {
				fmt.Fprintf(os.Stderr, "instr: %v\n", err)
				os.Exit(2)
			}
			if f.Name.Name == "main" {
				continue
			}
			files = append(files, pf{p, src, f})
		}
		// package-level variables
		pkgVars := map[string]bool{}
		for _, x := range files {
			for _, d := range x.f.Decls {
				if g, ok := d.(*ast.GenDecl); ok && g.Tok == token.VAR {
					for _, sp := range g.Specs {
						for _, n := range sp.(*ast.ValueSpec).Names {
							if n.Name != "_" {
								pkgVars[n.Name] = true
							}
						}
					}
				}
			}
		}
		// those that some function mutates
		mutable := map[string]bool{}
		mark := func(e ast.Expr) {
			if id := rootIdent(e); id != nil && pkgVars[id.Name] {
				mutable[id.Name] = true
			}
		}
		for _, x := range files {
			for _, d := range x.f.Decls {
				fd, ok := d.(*ast.FuncDecl)
				if !ok || fd.Body == nil {
					continue
				}
				ast.Inspect(fd.Body, func(n ast.Node) bool {
					switch v := n.(type) {
					case *ast.AssignStmt:
						if v.Tok != token.DEFINE {
							for _, l := range v.Lhs {
								mark(l)
							}
						}
					case *ast.IncDecStmt:
						mark(v.X)
					case *ast.UnaryExpr:
						if v.Op == token.AND {
							mark(v.X)
						}
					case *ast.CallExpr:
						if sel, ok := v.Fun.(*ast.SelectorExpr); ok {
							// method call on (a field of) a package variable: mutex, atomic, once, map wrapper
							if id := rootIdent(sel.X); id != nil && pkgVars[id.Name] {
								mutable[id.Name] = true
							}
						}
						if id, ok := v.Fun.(*ast.Ident); ok && (id.Name == "delete" || id.Name == "clear" || id.Name == "copy") && len(v.Args) > 0 {
							mark(v.Args[0])
						}
					}
					return true
				})
			}
		}
		if len(mutable) == 0 {
			continue
		}
		nVars += len(mutable)
		for _, x := range files {
			var ins []insertion
			for _, d := range x.f.Decls {
				fd, ok := d.(*ast.FuncDecl)
				if !ok || fd.Body == nil || fd.Name.Name == "init" {
					continue
				}
				uses := false
				ast.Inspect(fd.Body, func(n ast.Node) bool {
					if id, ok := n.(*ast.Ident); ok && mutable[id.Name] {
						uses = true
					}
					return !uses
				})
				if !uses {
					continue
				}
				ins = append(ins, insertion{fset.Position(fd.Body.Lbrace).Offset + 1, "verifrt.VerifSchedPoint();"})
				nFuncs++
				// and in front of every statement that mentions one of them (for compound statements: in
				// their header), so that a check-then-act sequence inside one function can be split
				refs := func(n ast.Node) bool {
					if n == nil || n == ast.Node(nil) {
						return false
					}
					found := false
					ast.Inspect(n, func(m ast.Node) bool {
						if _, isLit := m.(*ast.FuncLit); isLit {
							return false
						}
						if id, ok := m.(*ast.Ident); ok && mutable[id.Name] {
							found = true
						}
						return !found
					})
					return found
				}
				var visitList func(list []ast.Stmt)
				visitStmt := func(st ast.Stmt) bool { // does st itself (not its nested blocks) mention package state?
					switch v := st.(type) {
					case *ast.IfStmt:
						return (v.Init != nil && refs(v.Init)) || refs(v.Cond)
					case *ast.ForStmt:
						return (v.Init != nil && refs(v.Init)) || (v.Cond != nil && refs(v.Cond))
					case *ast.RangeStmt:
						return refs(v.X)
					case *ast.SwitchStmt:
						return (v.Init != nil && refs(v.Init)) || (v.Tag != nil && refs(v.Tag))
					case *ast.TypeSwitchStmt, *ast.SelectStmt, *ast.BlockStmt, *ast.LabeledStmt, *ast.DeclStmt, *ast.EmptyStmt:
						return false
					}
					return refs(st)
				}
				visitList = func(list []ast.Stmt) {
					for i, st := range list {
						if i > 0 || true {
							if visitStmt(st) {
								ins = append(ins, insertion{fset.Position(st.Pos()).Offset, "verifrt.VerifSchedPoint();"})
								nStmts++
							}
						}
						ast.Inspect(st, func(m ast.Node) bool {
							switch b := m.(type) {
							case *ast.FuncLit:
								return false
							case *ast.BlockStmt:
								if b != nil && ast.Node(b) != ast.Node(st) {
									visitList(b.List)
									return false
								}
							case *ast.CaseClause:
								visitList(b.Body)
								return false
							case *ast.CommClause:
								visitList(b.Body)
								return false
							}
							return true
						})
					}
				}
				visitList(fd.Body.List)
			}
			if len(ins) == 0 {
				continue
			}
			ins = append(ins, insertion{fset.Position(x.f.Name.End()).Offset, `;import verifrt "runtime"`})
			sort.Slice(ins, func(i, j int) bool { return ins[i].off > ins[j].off })
			src := append([]byte(nil), x.src...)
			for _, in := range ins {
				src = append(src[:in.off], append([]byte(in.text), src[in.off:]...)...)
			}
			relf, _ := filepath.Rel(repo, x.path)
			dst := filepath.Join(out, strings.ReplaceAll(relf, "/", "__"))
			if err := os.WriteFile(dst, src, 0644); err != nil {
				fmt.Fprintln(os.Stderr, "instr:", err)
				os.Exit(2)
			}
			replace[x.path] = dst
			nFiles++
		}
	}
	// merge into the overlay
	var ov struct {
		Replace map[string]string `json:"Replace"`
	}
	b, err := os.ReadFile(ovPath)
	if err != nil || json.Unmarshal(b, &ov) != nil {
		fmt.Fprintln(os.Stderr, "instr: cannot read overlay", ovPath)
		os.Exit(2)
	}
	for k, v := range replace {
		if _, clash := ov.Replace[k]; clash {
			fmt.Fprintln(os.Stderr, "instr: overlay already replaces", k)
			os.Exit(2)
		}
		ov.Replace[k] = v
	}
	b, _ = json.MarshalIndent(ov, "", " ")
	if err := os.WriteFile(ovPath, b, 0644); err != nil {
		fmt.Fprintln(os.Stderr, "instr:", err)
		os.Exit(2)
	}
	fmt.Printf("instr: scheduling points at %d function entries and %d statements in %d files (%d mutated package variables)\n", nFuncs, nStmts, nFiles, nVars)
}
