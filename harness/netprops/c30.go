// Package netprops decides C30 on a simulated network: every DNS lookup and every outgoing dial of
// the process is intercepted by hooks that the build overlay adds to package net; DNS answers,
// servers (HTTP/1.1 over net.Pipe) and redirect chains are drawn from the seed. No real socket is
// ever opened. The clients under test are pdfcpu's real ones.
package netprops

import (
	"bufio"
	"bytes"
	"context"
	"encoding/json"
	"fmt"
	"github.com/pdfcpu/pdfcpu/pkg/api"
	"github.com/pdfcpu/pdfcpu/pkg/pdfcpu/model"
	"github.com/pdfcpu/pdfcpu/pkg/pdfcpu/types"
	"io"
	"math/rand/v2"
	"net"
	"net/http"
	"os"
	"sort"
	"strings"
	"sync"
	"syscall"
	"time"

	"github.com/pdfcpu/pdfcpu/pkg/pdfcpu/primitives"
	"github.com/pdfcpu/pdfcpu/pkg/pdfcpu/sign"
	"verif/core"
)

type c30 struct{}

func init() { core.Register(c30{}) }

func (c30) ID() string    { return "C30" }
func (c30) Level() string { return "exploration" }
func (c30) Rule() string {
	return "seeded fetches through pdfcpu's real revocation client (CRL GET / OCSP POST, with the pre-flight URL check revocate.go applies) and real image-box resource path: URL = scheme (http https ftp file gopher none) x userinfo x host (name, IPv4/IPv6/IPv4-mapped literal, decimal/octal/hex-looking host, trailing dot, mixed case, allow-listed name) x port; per host 0-4 DNS answers from public and loopback/private/link-local/multicast/unspecified ranges in v4, v6 and ::ffff:-mapped form, mixed sets, a different answer on the second lookup (rebinding); servers answer 200, redirect (chains up to 14, Location again a generated URL), stall, close or garbage; a proxy is configured in the environment in half of the runs. The invariant is evaluated at the simulated resolver, dialer and servers. Distinct by the fetch description; non-trivial when at least one lookup or dial happened."
}
func (c30) Assumptions() []string {
	return []string{
		"the only ways out of the process are net.Resolver lookups and net.Dialer dials, both intercepted; pdfcpu is not using raw syscalls for networking",
		"blocked ranges are classified by the harness from the RFCs (1122, 1918, 3927, 4193, 4291, 5771), IPv4-mapped IPv6 by the embedded IPv4 address, independent of Go's net.IP predicates",
		"timeouts run on the real clock with short limits (revocation 250 ms, image 1 s) and stalls are rare; the oracle never requires a dial or a success, so timing cannot produce an alarm",
	}
}
func (c30) RealVsStub() map[string]string {
	return map[string]string{
		"revocationHTTPClient, revocationDialContext, validateRevocationIPs, revocationRedirect, validateRevocationURLString": "real (unexported, reached through an overlay-only export shim)",
		"ImageBox.resource, imageBoxRemoteURL, remoteResource, imageBoxHTTPClient, imageBoxDialContext, imageBoxRedirect":     "real (reached through an overlay-only shim that builds a bare ImageBox)",
		"net/http Client and Transport": "real",
		"DNS, TCP, remote servers":      "simulated (hooks in package net, net.Pipe, scripted HTTP/1.1 responder)",
	}
}

// ---- fetch description

type serverScript struct {
	Kind     string `json:"kind"` // ok redirect stall close garbage
	Location string `json:"location,omitempty"`
	Status   int    `json:"status,omitempty"`
}

type Fetch struct {
	Client  string                `json:"client"` // revocation-get revocation-post image
	URL     string                `json:"url"`
	DNS     map[string][][]string `json:"dns"`    // host (lower case, no trailing dot) -> successive answer sets
	Script  []serverScript        `json:"script"` // n-th request arriving anywhere gets Script[n] (last repeats)
	Allowed []string              `json:"allowed,omitempty"`
	Proxy   bool                  `json:"proxy"`
	Refuse  []int                 `json:"refuse,omitempty"` // indices of dial attempts that are answered with ECONNREFUSED
}

const proxyIP = "93.184.216.199" // public, so that reaching it is recognisable as "the proxy", not as a private address

type dialRec struct {
	Addr    string
	Exempt  bool // the request host is allow-listed (revocation client)
	ViaHost string
}

type world struct {
	mu       sync.Mutex
	f        Fetch
	lookups  []string
	nLookup  map[string]int
	dials    []dialRec
	lastHost string
	lastIPs  []string
	requests []string
	authSeen bool
	served   int
	refused  int
	conns    []net.Conn
}

// noZone strips the zone of a scoped IPv6 literal.
func noZone(h string) string {
	if i := strings.IndexByte(h, '%'); i >= 0 {
		return h[:i]
	}
	return h
}

func normHost(h string) string { return strings.TrimSuffix(strings.ToLower(h), ".") }

func (w *world) lookup(ctx context.Context, network, host string) ([]net.IPAddr, error, bool) {
	w.mu.Lock()
	defer w.mu.Unlock()
	w.lookups = append(w.lookups, host)
	h := host
	zone := ""
	if i := strings.IndexByte(h, '%'); i >= 0 {
		h, zone = h[:i], h[i+1:]
	}
	if ip := net.ParseIP(h); ip != nil {
		// literals resolve to themselves, as with the real resolver
		w.lastHost, w.lastIPs = host, []string{ip.String()}
		return []net.IPAddr{{IP: ip, Zone: zone}}, nil, true
	}
	key := normHost(host)
	sets, ok := w.f.DNS[key]
	if !ok || len(sets) == 0 {
		w.lastHost, w.lastIPs = host, nil
		return nil, &net.DNSError{Err: "no such host", Name: host, IsNotFound: true}, true
	}
	n := w.nLookup[key]
	w.nLookup[key]++
	if n >= len(sets) {
		n = len(sets) - 1
	}
	var out []net.IPAddr
	var ss []string
	for _, s := range sets[n] {
		if ip := net.ParseIP(s); ip != nil {
			out = append(out, net.IPAddr{IP: ip})
			ss = append(ss, ip.String())
		}
	}
	w.lastHost, w.lastIPs = host, ss
	if len(out) == 0 {
		return nil, &net.DNSError{Err: "no such host", Name: host, IsNotFound: true}, true
	}
	return out, nil, true
}

func (w *world) dial(ctx context.Context, network, address string) (net.Conn, error, bool) {
	w.mu.Lock()
	rec := dialRec{Addr: address, ViaHost: w.lastHost}
	host, _, _ := net.SplitHostPort(address)
	if ip := net.ParseIP(noZone(host)); ip != nil {
		for _, a := range w.lastIPs {
			if a == ip.String() {
				for _, al := range w.f.Allowed {
					if normHost(strings.TrimSpace(al)) == normHost(w.lastHost) && normHost(w.lastHost) != "" {
						rec.Exempt = true
					}
				}
			}
		}
	}
	idx := len(w.dials)
	w.dials = append(w.dials, rec)
	for _, r := range w.f.Refuse {
		if r == idx {
			w.refused++
			w.mu.Unlock()
			return nil, &net.OpError{Op: "dial", Net: network, Err: os.NewSyscallError("connect", syscall.ECONNREFUSED)}, true
		}
	}
	c1, c2 := net.Pipe()
	w.conns = append(w.conns, c1, c2)
	w.mu.Unlock()
	go w.serve(c2)
	return c1, nil, true
}

func (w *world) serve(c net.Conn) {
	defer c.Close()
	br := bufio.NewReader(c)
	for {
		c.SetReadDeadline(time.Now().Add(3 * time.Second))
		req, err := http.ReadRequest(br)
		if err != nil {
			return // TLS client hello, closed, ...
		}
		io.Copy(io.Discard, req.Body)
		w.mu.Lock()
		n := w.served
		w.served++
		w.requests = append(w.requests, req.Method+" "+req.Host+req.URL.RequestURI())
		if req.Header.Get("Authorization") != "" || req.Header.Get("Proxy-Authorization") != "" {
			w.authSeen = true
		}
		sc := serverScript{Kind: "ok"}
		if len(w.f.Script) > 0 {
			if n >= len(w.f.Script) {
				n = len(w.f.Script) - 1
			}
			sc = w.f.Script[n]
		}
		w.mu.Unlock()
		switch sc.Kind {
		case "ok":
			body := "\x89PNG not really"
			fmt.Fprintf(c, "HTTP/1.1 200 OK\r\nContent-Length: %d\r\nContent-Type: application/octet-stream\r\n\r\n%s", len(body), body)
		case "redirect":
			st := sc.Status
			if st == 0 {
				st = 302
			}
			fmt.Fprintf(c, "HTTP/1.1 %d Found\r\nLocation: %s\r\nContent-Length: 0\r\n\r\n", st, sc.Location)
		case "stall":
			time.Sleep(1500 * time.Millisecond)
			return
		case "close":
			return
		case "garbage":
			c.Write([]byte("\x00\x01\x02 not http\r\n\r\n"))
			return
		}
	}
}

// ---- classifier (independent of net.IP's predicates)

func blocked(ip net.IP) string {
	if v4 := to4(ip); v4 != nil {
		switch {
		case v4[0] == 127:
			return "loopback"
		case v4[0] == 10, v4[0] == 172 && v4[1]&0xf0 == 16, v4[0] == 192 && v4[1] == 168:
			return "private"
		case v4[0] == 169 && v4[1] == 254:
			return "link-local"
		case v4[0] >= 224 && v4[0] <= 239:
			return "multicast"
		case v4[0] == 0 && v4[1] == 0 && v4[2] == 0 && v4[3] == 0:
			return "unspecified"
		}
		return ""
	}
	ip = ip.To16()
	if ip == nil {
		return "unparsable"
	}
	allZero := true
	for _, b := range ip[:15] {
		if b != 0 {
			allZero = false
		}
	}
	switch {
	case allZero && ip[15] == 1:
		return "loopback"
	case allZero && ip[15] == 0:
		return "unspecified"
	case ip[0]&0xfe == 0xfc:
		return "private"
	case ip[0] == 0xfe && ip[1]&0xc0 == 0x80:
		return "link-local"
	case ip[0] == 0xff:
		return "multicast"
	}
	return ""
}

// to4 returns the IPv4 address of a 4-byte or IPv4-mapped 16-byte address.
func to4(ip net.IP) []byte {
	if len(ip) == 4 {
		return ip
	}
	if len(ip) == 16 {
		for i := 0; i < 10; i++ {
			if ip[i] != 0 {
				return nil
			}
		}
		if ip[10] == 0xff && ip[11] == 0xff {
			return ip[12:16]
		}
	}
	return nil
}

// ---- running one fetch

var hookMu sync.Mutex

func runFetch(f Fetch) (vs []core.Violation, w *world) {
	hookMu.Lock()
	defer hookMu.Unlock()
	w = &world{f: f, nLookup: map[string]int{}}
	net.VerifLookup = w.lookup
	net.VerifDial = w.dial
	for _, k := range []string{"HTTP_PROXY", "HTTPS_PROXY", "ALL_PROXY", "http_proxy", "https_proxy", "all_proxy", "NO_PROXY", "no_proxy"} {
		os.Unsetenv(k)
	}
	if f.Proxy {
		for _, k := range []string{"HTTP_PROXY", "HTTPS_PROXY", "ALL_PROXY", "http_proxy", "https_proxy", "all_proxy"} {
			os.Setenv(k, "http://user:pw@"+proxyIP+":3128")
		}
	}
	http.VerifResetProxyEnv() // ProxyFromEnvironment caches the environment per process
	done := make(chan struct{})
	var panicVal any
	go func() {
		defer close(done)
		defer func() { panicVal = recover() }()
		switch f.Client {
		case "revocation-get", "revocation-post":
			// exactly as revocate.go: pre-flight check of the URL string, then the request
			if err := sign.VerifValidateRevocationURLString(f.URL); err != nil {
				return
			}
			client := sign.VerifRevocationHTTPClient(250*time.Millisecond, f.Allowed)
			var resp *http.Response
			var err error
			if f.Client == "revocation-get" {
				resp, err = client.Get(f.URL)
			} else {
				resp, err = client.Post(f.URL, "application/ocsp-request", io.NopCloser(bytes.NewReader([]byte{0x30, 0x03, 0x0a, 0x01, 0x00})))
			}
			if err == nil {
				io.Copy(io.Discard, io.LimitReader(resp.Body, 1<<16))
				resp.Body.Close()
			}
			client.CloseIdleConnections()
		case "image":
			primitives.VerifImageBoxFetch(f.URL, 1)
		case "linkcheck":
			// validation with link checking switched on fetches every URI action of the document
			b, err := linkDoc(f.URL)
			if err != nil {
				panic("harness: " + err.Error())
			}
			conf := model.NewDefaultConfiguration()
			conf.ValidateLinks, conf.Offline, conf.Timeout = true, false, 1
			api.Validate(bytes.NewReader(b), conf)
		}
	}()
	timedOut := false
	select {
	case <-done:
	case <-time.After(20 * time.Second):
		timedOut = true
	}
	net.VerifLookup, net.VerifDial = nil, nil
	w.mu.Lock()
	for _, c := range w.conns {
		c.Close()
	}
	defer w.mu.Unlock()
	mk := func(class, tail, detail string) {
		b, _ := json.Marshal(f)
		sig := fmt.Sprintf("%s|%s|%s", strings.SplitN(f.Client, "-", 2)[0], class, tail)
		vs = append(vs, core.Violation{Property: "C30", Class: class, Signature: sig, Replay: b,
			Detail: fmt.Sprintf("client=%s url=%q proxy=%v allowed=%v refused-dials=%v\ndns=%v\nlookups=%v\ndials=%v\nrequests=%v\n%s", f.Client, f.URL, f.Proxy, f.Allowed, f.Refuse, f.DNS, w.lookups, w.dials, w.requests, detail)})
	}
	if panicVal != nil {
		mk("panic", "", fmt.Sprintf("panic: %v", panicVal))
	}
	if timedOut {
		mk("no-termination", "", "the fetch did not return within 20 s of real time although every timeout involved is at most 1 s")
	}
	for _, d := range w.dials {
		host, port, err := net.SplitHostPort(d.Addr)
		if err != nil {
			mk("dial-malformed", "", "dial address "+d.Addr)
			continue
		}
		_ = port
		if host == proxyIP {
			mk("proxy-used", "", "a connection was opened to the proxy configured in the environment: "+d.Addr)
			continue
		}
		ip := net.ParseIP(noZone(host))
		if ip == nil {
			mk("dial-by-name", "", fmt.Sprintf("a connection was requested by name (%s): the address checked is not necessarily the address connected to", d.Addr))
			continue
		}
		if kind := blocked(ip); kind != "" && !d.Exempt {
			form := "v4"
			if ip.To4() == nil {
				form = "v6"
			} else if len(host) > 0 && strings.Contains(host, ":") {
				form = "mapped"
			}
			mk("blocked-address-dialed", kind+"/"+form, fmt.Sprintf("connection opened to %s (%s), resolved for host %q which is not allow-listed", d.Addr, kind, d.ViaHost))
		}
	}
	if w.authSeen {
		mk("credentials-sent", "", "a request carried an Authorization header")
	}
	if len(w.dials) > 40 || len(w.lookups) > 60 {
		mk("unbounded-redirects", "", fmt.Sprintf("%d dials, %d lookups for one fetch", len(w.dials), len(w.lookups)))
	}
	return vs, w
}

// ---- generator

var (
	publicV4 = []string{"93.184.216.34", "8.8.8.8", "151.101.1.69", "1.1.1.1"}
	publicV6 = []string{"2606:2800:220:1:248:1893:25c8:1946", "2001:4860:4860::8888"}
	badV4    = []string{"127.0.0.1", "127.8.9.10", "10.0.0.5", "10.255.255.254", "172.16.0.1", "172.31.255.1", "192.168.1.1", "169.254.169.254", "224.0.0.1", "239.255.255.250", "0.0.0.0"}
	badV6    = []string{"::1", "fc00::1", "fd12:3456:789a::1", "fe80::1", "febf::1", "ff02::1", "ff0e::101", "::"}
	names    = []string{"crl.example.com", "ocsp.example.net", "img.example.org", "a.b.example.com", "intranet", "localhost", "metadata.internal", "allowed.corp.example", "Allowed.Corp.Example."}
)

func mapped(v4 string) string { return "::ffff:" + v4 }

// blocked ranges by the statement's list (loopback, private, link-local, multicast, unspecified), as
// (first address, prefix length); addresses are drawn at the boundaries and inside
var blockedV4 = []struct {
	base [4]byte
	bits int
}{{[4]byte{127, 0, 0, 0}, 8}, {[4]byte{10, 0, 0, 0}, 8}, {[4]byte{172, 16, 0, 0}, 12}, {[4]byte{192, 168, 0, 0}, 16}, {[4]byte{169, 254, 0, 0}, 16}, {[4]byte{224, 0, 0, 0}, 4}}

var blockedV6 = []struct {
	base [16]byte
	bits int
}{{[16]byte{0xfc}, 7}, {[16]byte{0xfe, 0x80}, 10}, {[16]byte{0xff}, 8}}

func randInRange(rng *rand.Rand, base []byte, bits int) []byte {
	out := append([]byte(nil), base...)
	mode := rng.IntN(4) // 0 first address, 1 last address, 2-3 random inside
	for i := bits; i < len(base)*8; i++ {
		bit := byte(0)
		switch mode {
		case 1:
			bit = 1
		case 2, 3:
			bit = byte(rng.IntN(2))
		}
		if bit == 1 {
			out[i/8] |= 1 << (7 - uint(i%8))
		}
	}
	return out
}

func randBadV4(rng *rand.Rand) string {
	if rng.IntN(12) == 0 {
		return "0.0.0.0"
	}
	r := blockedV4[rng.IntN(len(blockedV4))]
	return net.IP(randInRange(rng, r.base[:], r.bits)).String()
}

func randBadV6(rng *rand.Rand) string {
	switch rng.IntN(8) {
	case 0:
		return "::1"
	case 1:
		return "::"
	}
	r := blockedV6[rng.IntN(len(blockedV6))]
	return net.IP(randInRange(rng, r.base[:], r.bits)).String()
}

func genIP(rng *rand.Rand, bad bool) string {
	if bad {
		if rng.IntN(2) == 0 {
			// drawn from the whole blocked ranges, boundaries included
			switch rng.IntN(3) {
			case 0:
				return randBadV4(rng)
			case 1:
				return randBadV6(rng)
			default:
				return mapped(randBadV4(rng))
			}
		}
		switch rng.IntN(3) {
		case 0:
			return badV4[rng.IntN(len(badV4))]
		case 1:
			return badV6[rng.IntN(len(badV6))]
		default:
			return mapped(badV4[rng.IntN(len(badV4))])
		}
	}
	switch rng.IntN(3) {
	case 0:
		return publicV4[rng.IntN(len(publicV4))]
	case 1:
		return publicV6[rng.IntN(len(publicV6))]
	default:
		return mapped(publicV4[rng.IntN(len(publicV4))])
	}
}

func genHost(rng *rand.Rand) string {
	switch rng.IntN(16) {
	case 0:
		return genIP(rng, true)
	case 1:
		return genIP(rng, false)
	case 2:
		return []string{"2130706433", "0177.0.0.1", "0x7f.1", "127.1", "0x7f000001", "017700000001"}[rng.IntN(6)] // numeric-looking hosts
	case 3:
		return "localhost"
	case 4:
		// an IPv6 literal with a zone (RFC 6874: "%25" in the URL). net.ParseIP does not accept it,
		// the resolver and netip.ParseAddr do; a 4-in-6 literal with a zone is dialed as plain IPv4
		var ip string
		switch rng.IntN(4) {
		case 0:
			ip = genIP(rng, false)
		default:
			ip = genIP(rng, true)
		}
		if !strings.Contains(ip, ":") {
			ip = "::ffff:" + ip
		}
		return ip + "%25" + []string{"lo", "eth0", "1", "en0"}[rng.IntN(4)]
	default:
		h := names[rng.IntN(len(names))]
		if rng.IntN(6) == 0 {
			h = strings.ToUpper(h[:1]) + h[1:]
		}
		if rng.IntN(8) == 0 && !strings.HasSuffix(h, ".") {
			h += "."
		}
		return h
	}
}

func genURL(rng *rand.Rand) string {
	scheme := []string{"http", "http", "http", "http", "http", "http", "http", "http", "http", "https", "https", "ftp", "file", "gopher", "HTTP", ""}[rng.IntN(16)]
	host := genHost(rng)
	if strings.Contains(host, ":") {
		host = "[" + host + "]"
	}
	user := ""
	if rng.IntN(8) == 0 {
		user = []string{"user:secret@", "admin@", ":pw@"}[rng.IntN(3)]
	}
	port := ""
	if rng.IntN(4) == 0 {
		port = []string{":80", ":8080", ":443", ":3128", ":65535"}[rng.IntN(5)]
	}
	path := []string{"/ca.crl", "/ocsp", "/img/logo.png", "/", ""}[rng.IntN(5)]
	if scheme == "" {
		return "//" + user + host + port + path
	}
	return scheme + "://" + user + host + port + path
}

var linkBase []byte

// linkDoc returns test.pdf with one link annotation whose URI action is uri (written by pdfcpu itself,
// outside the simulated network).
func linkDoc(uri string) ([]byte, error) {
	if linkBase == nil {
		b, err := os.ReadFile("/repo/pkg/testdata/test.pdf")
		if err != nil {
			return nil, err
		}
		linkBase = b
	}
	ann := model.NewLinkAnnotation(*types.NewRectangle(10, 10, 100, 40), 0, "link", "verif-link", "", 0, nil, nil, uri, nil, false, 0, model.BSSolid)
	var out bytes.Buffer
	conf := model.NewDefaultConfiguration()
	if err := api.AddAnnotations(bytes.NewReader(linkBase), &out, []string{"1"}, ann, conf); err != nil {
		return nil, err
	}
	return out.Bytes(), nil
}

func genFetch(rng *rand.Rand) Fetch {
	f := Fetch{DNS: map[string][][]string{}}
	f.Client = []string{"revocation-get", "revocation-get", "revocation-post", "image", "image", "linkcheck"}[rng.IntN(6)]
	f.URL = genURL(rng)
	f.Proxy = rng.IntN(2) == 0
	if strings.HasPrefix(f.Client, "revocation") && rng.IntN(3) == 0 {
		f.Allowed = [][]string{{"allowed.corp.example"}, {"ALLOWED.corp.example.", " intranet "}, {"localhost"}}[rng.IntN(3)]
	}
	for _, n := range append(append([]string{}, names...), "localhost") {
		key := normHost(n)
		if _, ok := f.DNS[key]; ok {
			continue
		}
		var sets [][]string
		for s := 0; s < 1+rng.IntN(2); s++ { // a second, different answer = rebinding
			var set []string
			k := 1 + rng.IntN(4)
			if rng.IntN(10) == 0 {
				k = 0
			}
			mode := []int{0, 0, 0, 0, 0, 1, 2, 3}[rng.IntN(8)] // 0 all public, 1 all bad, 2 mixed, 3 mixed with bad last
			if s > 0 {
				mode = []int{0, 1, 1, 3}[rng.IntN(4)] // the rebinding answer is usually hostile
			}
			for i := 0; i < k; i++ {
				bad := mode == 1 || (mode == 2 && rng.IntN(2) == 0) || (mode == 3 && i == k-1)
				set = append(set, genIP(rng, bad))
			}
			sets = append(sets, set)
		}
		f.DNS[key] = sets
	}
	n := rng.IntN(15)
	for i := 0; i < n; i++ {
		f.Script = append(f.Script, serverScript{Kind: "redirect", Location: genURL(rng), Status: []int{301, 302, 303, 307, 308}[rng.IntN(5)]})
	}
	last := "ok"
	switch rng.IntN(40) {
	case 0:
		last = "stall"
	case 1, 2:
		last = "close"
	case 3, 4:
		last = "garbage"
	}
	f.Script = append(f.Script, serverScript{Kind: last})
	// connection refused: the first r dial attempts (all addresses of the first answer, typically),
	// or a scattered subset
	switch rng.IntN(8) {
	case 0:
		r := 1 + rng.IntN(4)
		for i := 0; i < r; i++ {
			f.Refuse = append(f.Refuse, i)
		}
	case 1:
		for i := 0; i < 12; i++ {
			if rng.IntN(3) == 0 {
				f.Refuse = append(f.Refuse, i)
			}
		}
	}
	return f
}

// C30Unit is a batch of fetches.
type C30Unit struct {
	Seed uint64 `json:"seed"`
	N    int    `json:"n"`
}

func (c30) Units(tier string, seed int64) ([]core.Unit, error) {
	total := 16000
	if tier != "quick" {
		total = 400000
	}
	rng := rand.New(rand.NewPCG(uint64(seed), 0xC30))
	var units []core.Unit
	per := 250
	for done := 0; done < total; done += per {
		b, _ := json.Marshal(C30Unit{Seed: rng.Uint64(), N: per})
		units = append(units, b)
	}
	return units, nil
}

func (c30) RunUnit(raw core.Unit, tier string, seed int64) core.UnitResult {
	var u C30Unit
	res := core.UnitResult{FaultFired: map[string]int{}, EventsSeen: map[string]int{}, Probes: map[string]int{}}
	if err := json.Unmarshal(raw, &u); err != nil {
		res.Trouble = err.Error()
		return res
	}
	rng := rand.New(rand.NewPCG(u.Seed, 30))
	for i := 0; i < u.N; i++ {
		f := genFetch(rng)
		vs, w := runFetch(f)
		res.Evaluations++
		res.EventsSeen["lookups"] += len(w.lookups)
		res.EventsSeen["dials"] += len(w.dials)
		res.EventsSeen["http_requests_served"] += len(w.requests)
		if len(w.lookups)+len(w.dials) > 0 {
			b, _ := json.Marshal(f)
			res.Nontrivial = append(res.Nontrivial, string(b))
		}
		for _, d := range w.dials {
			if d.Exempt {
				res.Probes["dials_to_blocked_address_of_allow_listed_host"]++
			}
		}
		if len(w.requests) > 1 {
			res.Probes["redirects_followed"] += len(w.requests) - 1
		}
		if f.Proxy {
			res.FaultFired["proxy-env"]++
		}
		for _, sets := range f.DNS {
			if len(sets) > 1 {
				res.FaultFired["dns-rebinding-answer"]++
				break
			}
		}
		if w.refused > 0 {
			res.FaultFired["dial-refused"] += w.refused
		}
		for _, s := range f.Script {
			if s.Kind != "ok" && s.Kind != "redirect" {
				res.FaultFired["server-"+s.Kind]++
			}
		}
		if len(res.Samples) < 2 && len(w.dials) > 1 {
			res.Samples = append(res.Samples, map[string]any{"client": f.Client, "url": f.URL, "lookups": w.lookups, "dials": w.dials, "requests": w.requests, "violations": len(vs)})
		}
		res.Violations = append(res.Violations, vs...)
	}
	res.SimSteps = res.EventsSeen["lookups"] + res.EventsSeen["dials"] + res.EventsSeen["http_requests_served"]
	return res
}

func (c30) Replay(payload json.RawMessage) ([]core.Violation, error) {
	var f Fetch
	if err := json.Unmarshal(payload, &f); err != nil {
		return nil, err
	}
	vs, w := runFetch(f)
	fmt.Printf("lookups=%v\ndials=%v\nrequests=%v\n", w.lookups, w.dials, w.requests)
	return vs, nil
}

// Minimise: drop DNS entries that were never looked up, cut the redirect script, drop the proxy.
func (c30) Minimise(v core.Violation, budget int) json.RawMessage {
	var f Fetch
	if json.Unmarshal(v.Replay, &f) != nil {
		return nil
	}
	still := func(c Fetch) bool {
		vs, _ := runFetch(c)
		for _, x := range vs {
			if x.Class == v.Class {
				return true
			}
		}
		return false
	}
	var hosts []string
	for h := range f.DNS {
		hosts = append(hosts, h)
	}
	sort.Strings(hosts)
	for _, h := range hosts {
		c := f
		c.DNS = map[string][][]string{}
		for k, s := range f.DNS {
			if k != h {
				c.DNS[k] = s
			}
		}
		if still(c) {
			f = c
		}
	}
	for len(f.Script) > 1 {
		c := f
		c.Script = append([]serverScript{}, f.Script[1:]...)
		if !still(c) {
			break
		}
		f = c
	}
	if f.Proxy {
		c := f
		c.Proxy = false
		if still(c) {
			f = c
		}
	}
	for i := len(f.Refuse) - 1; i >= 0; i-- {
		c := f
		c.Refuse = append(append([]int{}, f.Refuse[:i]...), f.Refuse[i+1:]...)
		if still(c) {
			f = c
		}
	}
	b, _ := json.Marshal(f)
	return b
}
