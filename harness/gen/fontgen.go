// Package gen builds the synthetic inputs the install workloads need: distinct installable TrueType
// fonts derived from the repository's Roboto-Regular.ttf, TrueType collections, and deterministic
// self-signed certificates.
package gen

import (
	"bytes"
	"crypto/ed25519"
	"crypto/sha256"
	"crypto/x509"
	"crypto/x509/pkix"
	"encoding/binary"
	"encoding/pem"
	"fmt"
	"math/big"
	"os"
	"time"
	"unicode/utf16"
)

const RobotoPath = "/repo/pkg/testdata/fonts/Roboto-Regular.ttf"

var roboto []byte

func Roboto() []byte {
	if roboto == nil {
		b, err := os.ReadFile(RobotoPath)
		if err != nil {
			panic(err)
		}
		roboto = b
	}
	return roboto
}

func utf16be(s string) []byte {
	var out []byte
	for _, u := range utf16.Encode([]rune(s)) {
		out = append(out, byte(u>>8), byte(u))
	}
	return out
}

// FontName is the PostScript name of variant c ('A'..'Z').
func FontName(c byte) string { return "Roboto-Regula" + string(c) }

// Variant returns Roboto with its PostScript/full names rewritten to Roboto-Regula<c> (same length,
// so no table has to move). rev != 0 perturbs one control value, so that two variants with the same
// name carry different font programs ("old" vs "new" revision).
func Variant(c byte, rev byte) []byte {
	b := append([]byte(nil), Roboto()...)
	oldN, newN := "Roboto-Regular", FontName(c)
	b = bytes.ReplaceAll(b, []byte(oldN), []byte(newN))
	b = bytes.ReplaceAll(b, utf16be(oldN), utf16be(newN))
	if rev != 0 {
		// another revision of the same font: one control value of the 'cvt ' table (hinting data, plain
		// numbers) is changed, so the font program that gets installed and embedded differs
		n := int(binary.BigEndian.Uint16(b[4:6]))
		done := false
		for i := 0; i < n; i++ {
			e := b[12+16*i : 28+16*i]
			if string(e[:4]) == "cvt " {
				off := int(binary.BigEndian.Uint32(e[8:12]))
				b[off+1] ^= rev
				// keep the table checksum right (big-endian sum of uint32 words)
				ln := int(binary.BigEndian.Uint32(e[12:16]))
				var sum uint32
				for j := 0; j < (ln+3)/4*4; j += 4 {
					sum += binary.BigEndian.Uint32(b[off+j : off+j+4])
				}
				binary.BigEndian.PutUint32(e[4:8], sum)
				done = true
			}
		}
		if !done {
			panic("gen.Variant: font has no cvt table")
		}
	}
	return b
}

// BuildTTC packs complete TrueType fonts into one collection (table offsets rebased).
func BuildTTC(fonts ...[]byte) []byte {
	n := len(fonts)
	hdr := 12 + 4*n
	out := make([]byte, hdr)
	copy(out, "ttcf")
	binary.BigEndian.PutUint16(out[4:], 1)
	binary.BigEndian.PutUint16(out[6:], 0)
	binary.BigEndian.PutUint32(out[8:], uint32(n))
	for i, f := range fonts {
		for len(out)%4 != 0 {
			out = append(out, 0)
		}
		base := len(out)
		binary.BigEndian.PutUint32(out[12+4*i:], uint32(base))
		out = append(out, f...)
		numTables := int(binary.BigEndian.Uint16(f[4:]))
		for t := 0; t < numTables; t++ {
			rec := base + 12 + 16*t
			off := binary.BigEndian.Uint32(out[rec+8:])
			binary.BigEndian.PutUint32(out[rec+8:], off+uint32(base))
		}
	}
	return out
}

// CertPEM returns a deterministic self-signed certificate (PEM) for subject cn.
func CertPEM(cn string) []byte {
	seed := sha256.Sum256([]byte("verif-cert-" + cn))
	priv := ed25519.NewKeyFromSeed(seed[:])
	tmpl := &x509.Certificate{
		SerialNumber:          new(big.Int).SetBytes(seed[:8]),
		Subject:               pkix.Name{CommonName: cn, Organization: []string{"verif"}},
		NotBefore:             time.Date(2020, 1, 1, 0, 0, 0, 0, time.UTC),
		NotAfter:              time.Date(2040, 1, 1, 0, 0, 0, 0, time.UTC),
		KeyUsage:              x509.KeyUsageDigitalSignature | x509.KeyUsageCertSign,
		BasicConstraintsValid: true,
		IsCA:                  true,
	}
	der, err := x509.CreateCertificate(nil, tmpl, tmpl, priv.Public(), priv)
	if err != nil {
		panic(fmt.Sprintf("certgen: %v", err))
	}
	return pem.EncodeToMemory(&pem.Block{Type: "CERTIFICATE", Bytes: der})
}
