// Package pdfgen writes small PDF documents independently of pdfcpu's writer: n pages with a unique
// marker text each, a two-level page tree whose intermediate nodes carry inherited /Rotate and
// /MediaBox, and mixed per-page rotations and sizes.
package pdfgen

import (
	"bytes"
	"fmt"
)

// PageSpec describes one generated page.
type PageSpec struct {
	Marker   string
	Rotate   *int        // nil: inherited from the intermediate node
	MediaBox *[4]float64 // nil: inherited
	CropBox  *[4]float64
}

// Doc builds a document. Pages are grouped into intermediate nodes of groupSize pages; group g
// has inherited Rotate = groupRot[g%len] and MediaBox = groupBox[g%len].
func Doc(pages []PageSpec, groupSize int, groupRot []int, groupBox [][4]float64) []byte {
	return DocX(pages, groupSize, groupRot, groupBox, Extra{})
}

// Extra describes optional document-level parts.
type Extra struct {
	Info    string   // body of the Info dictionary ("" = no Info dictionary), PDF syntax
	XMP     []byte   // XMP packet for the catalog's Metadata stream (nil = none)
	Catalog string   // additional catalog entries, PDF syntax
	Objects []string // additional indirect objects; "%d" style references are the caller's business: they are
	// numbered FirstExtra, FirstExtra+1, ... where FirstExtra = ExtraBase(pages, groupSize)
}

// ExtraBase returns the object number the first Extra.Objects entry gets.
func ExtraBase(nPages, groupSize int) int {
	nGroups := (nPages + groupSize - 1) / groupSize
	return 3 + nGroups + 2*nPages + 1
}

// DocX is Doc with document-level extras.
func DocX(pages []PageSpec, groupSize int, groupRot []int, groupBox [][4]float64, x Extra) []byte {
	var objs [][]byte // index = obj nr - 1
	add := func(b string) int {
		objs = append(objs, []byte(b))
		return len(objs)
	}
	// reserve: 1 catalog, 2 pages root, 3 font
	add("") // catalog placeholder
	add("") // root placeholder
	font := add("<< /Type /Font /Subtype /Type1 /BaseFont /Helvetica >>")
	nGroups := (len(pages) + groupSize - 1) / groupSize
	groupObj := make([]int, nGroups)
	for g := range groupObj {
		groupObj[g] = add("") // placeholder
	}
	var kidsOfGroup = make([][]int, nGroups)
	for i, p := range pages {
		g := i / groupSize
		content := fmt.Sprintf("BT /F1 18 Tf 40 100 Td (%s) Tj ET\n", p.Marker)
		cobj := add(fmt.Sprintf("<< /Length %d >>\nstream\n%sendstream", len(content), content))
		var sb bytes.Buffer
		fmt.Fprintf(&sb, "<< /Type /Page /Parent %d 0 R /Contents %d 0 R /Resources << /Font << /F1 %d 0 R >> >>", groupObj[g], cobj, font)
		if p.Rotate != nil {
			fmt.Fprintf(&sb, " /Rotate %d", *p.Rotate)
		}
		if p.MediaBox != nil {
			fmt.Fprintf(&sb, " /MediaBox [%g %g %g %g]", p.MediaBox[0], p.MediaBox[1], p.MediaBox[2], p.MediaBox[3])
		}
		if p.CropBox != nil {
			fmt.Fprintf(&sb, " /CropBox [%g %g %g %g]", p.CropBox[0], p.CropBox[1], p.CropBox[2], p.CropBox[3])
		}
		sb.WriteString(" >>")
		kidsOfGroup[g] = append(kidsOfGroup[g], add(sb.String()))
	}
	var rootKids bytes.Buffer
	for g := 0; g < nGroups; g++ {
		var kids bytes.Buffer
		for _, k := range kidsOfGroup[g] {
			fmt.Fprintf(&kids, "%d 0 R ", k)
		}
		box := groupBox[g%len(groupBox)]
		objs[groupObj[g]-1] = []byte(fmt.Sprintf("<< /Type /Pages /Parent 2 0 R /Count %d /Kids [%s] /Rotate %d /MediaBox [%g %g %g %g] >>",
			len(kidsOfGroup[g]), kids.String(), groupRot[g%len(groupRot)], box[0], box[1], box[2], box[3]))
		fmt.Fprintf(&rootKids, "%d 0 R ", groupObj[g])
	}
	for _, o := range x.Objects {
		add(o)
	}
	cat := "<< /Type /Catalog /Pages 2 0 R"
	if x.XMP != nil {
		m := add(fmt.Sprintf("<< /Type /Metadata /Subtype /XML /Length %d >>\nstream\n%s\nendstream", len(x.XMP), x.XMP))
		cat += fmt.Sprintf(" /Metadata %d 0 R", m)
	}
	if x.Catalog != "" {
		cat += " " + x.Catalog
	}
	infoRef := ""
	if x.Info != "" {
		infoRef = fmt.Sprintf(" /Info %d 0 R", add("<< "+x.Info+" >>"))
	}
	objs[0] = []byte(cat + " >>")
	objs[1] = []byte(fmt.Sprintf("<< /Type /Pages /Count %d /Kids [%s] >>", len(pages), rootKids.String()))

	var out bytes.Buffer
	out.WriteString("%PDF-1.7\n%\xe2\xe3\xcf\xd3\n")
	offsets := make([]int, len(objs))
	for i, o := range objs {
		offsets[i] = out.Len()
		fmt.Fprintf(&out, "%d 0 obj\n%s\nendobj\n", i+1, o)
	}
	xref := out.Len()
	fmt.Fprintf(&out, "xref\n0 %d\n0000000000 65535 f \n", len(objs)+1)
	for _, off := range offsets {
		fmt.Fprintf(&out, "%010d 00000 n \n", off)
	}
	fmt.Fprintf(&out, "trailer\n<< /Size %d /Root 1 0 R%s >>\nstartxref\n%d\n%%%%EOF\n", len(objs)+1, infoRef, xref)
	return out.Bytes()
}
