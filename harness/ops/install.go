package ops

import (
	"fmt"
	"os"
	"path/filepath"

	"github.com/pdfcpu/pdfcpu/pkg/api"
	"github.com/pdfcpu/pdfcpu/pkg/font"
	"github.com/pdfcpu/pdfcpu/pkg/pdfcpu/model"
	"verif/gen"
)

// Relations of install-family ops: which targets exist before the call.
const (
	RelFresh       = "fresh"       // no target exists
	RelPreexisting = "preexisting" // every target exists with an older, valid representation
	RelPartial     = "partial"     // only the first target exists
	RelSymlinkDir  = "symlinkdir"  // no target exists; the font directory path is a symlink to a directory (C07 only)
	RelDangling    = "dangling"    // the first target exists as a dangling symbolic link (it has to be backed up and restored like any other entry)
)

type fontInput struct {
	file  string // file name in in/
	names []byte // variant letters it contains (1 = ttf, >1 = ttc)
	raw   []byte // explicit content (invalid inputs)
}

func writeFontInputs(e *Env, inputs []fontInput) []string {
	var paths []string
	for _, in := range inputs {
		var b []byte
		switch {
		case in.raw != nil:
			b = in.raw
		case len(in.names) == 1:
			b = gen.Variant(in.names[0], 0)
		default:
			var ff [][]byte
			for _, c := range in.names {
				ff = append(ff, gen.Variant(c, 0))
			}
			b = gen.BuildTTC(ff...)
		}
		p := filepath.Join(e.InDir, in.file)
		os.WriteFile(p, b, 0644)
		paths = append(paths, p)
	}
	return paths
}

// preinstallOld installs older representations (rev 'X') of the given variant letters.
func preinstallOld(e *Env, letters []byte) error {
	tmp := filepath.Join(e.Tmp, "old.ttf")
	for _, c := range letters {
		if err := os.WriteFile(tmp, gen.Variant(c, 'X'), 0644); err != nil {
			return err
		}
		if _, err := font.InstallTrueTypeFont(e.FontDir, tmp); err != nil {
			return fmt.Errorf("preinstall %c: %w", c, err)
		}
	}
	os.Remove(tmp)
	// staging leftovers of the preinstall are not expected; fail loudly if there are any
	ents, _ := os.ReadDir(e.FontDir)
	for _, d := range ents {
		if d.Name()[0] == '.' {
			return fmt.Errorf("preinstall left %s", d.Name())
		}
	}
	return nil
}

func fontOp(name string, inputs []fontInput, targets []byte, natural bool, run func(e *Env, files []string) error) *Op {
	o := &Op{Name: name, Family: "install", Rels: []string{RelFresh, RelPreexisting, RelPartial, RelDangling}, NaturalFail: natural}
	o.SetupInstall = func(e *Env, rel string) error {
		e.In = writeFontInputs(e, inputs)
		// a bystander font that is installed already and must survive everything
		if err := preinstallOld(e, []byte{'Z'}); err != nil {
			return err
		}
		if o.Note == "reload-fails" {
			// an undecodable representation makes the reload after the commit fail -> rollback of a committed batch
			os.WriteFile(filepath.Join(e.FontDir, "Broken.gob"), []byte("not a font representation"), 0644)
		}
		for _, c := range targets {
			e.Targets = append(e.Targets, "fonts/"+gen.FontName(c)+".gob")
		}
		switch rel {
		case RelPreexisting:
			return preinstallOld(e, targets)
		case RelPartial:
			if len(targets) > 0 {
				return preinstallOld(e, targets[:1])
			}
		case RelDangling:
			if len(targets) > 0 {
				return os.Symlink("/nonexistent/verif-old-font.gob", filepath.Join(e.FontDir, gen.FontName(targets[0])+".gob"))
			}
		}
		return nil
	}
	o.Run = func(e *Env) error {
		font.UserFontDir = e.FontDir
		return run(e, e.In)
	}
	register(o)
	return o
}

func certOp(name string, files map[string][]byte, order []string, targets []string, natural bool) {
	o := &Op{Name: name, Family: "install", Rels: []string{RelFresh, RelPreexisting, RelPartial}, NaturalFail: natural}
	o.SetupInstall = func(e *Env, rel string) error {
		for _, f := range order {
			p := filepath.Join(e.InDir, f)
			os.MkdirAll(filepath.Dir(p), 0755)
			os.WriteFile(p, files[f], 0644)
			e.In = append(e.In, p)
		}
		for _, t := range targets {
			e.Targets = append(e.Targets, "certs/"+t)
		}
		pre := targets
		if rel == RelFresh {
			pre = nil
		} else if rel == RelPartial && len(pre) > 0 {
			pre = pre[:1]
		}
		if len(pre) > 0 {
			// older store content: a different certificate under the same destination name
			model.TrustedCertDir = e.CertDir
			old := filepath.Join(e.Tmp, "oldcerts")
			os.MkdirAll(old, 0755)
			var ins []string
			for _, t := range pre {
				base := t[:len(t)-len(filepath.Ext(t))]
				p := filepath.Join(old, base+".pem")
				os.WriteFile(p, gen.CertPEM("old-"+base), 0644)
				ins = append(ins, p)
			}
			if _, err := api.ImportCertificates(ins); err != nil {
				return fmt.Errorf("preinstall certificates: %w", err)
			}
			os.RemoveAll(old)
		}
		return nil
	}
	o.Run = func(e *Env) error {
		model.TrustedCertDir = e.CertDir
		_, err := api.ImportCertificates(e.In)
		return err
	}
	register(o)
}

func init() {
	fontOp("font-ttf", []fontInput{{file: "A.ttf", names: []byte{'A'}}}, []byte{'A'}, false, func(e *Env, f []string) error {
		_, err := font.InstallTrueTypeFont(e.FontDir, f[0])
		return err
	})
	// installs from memory (the quiet variant is what pdfcpu uses to bootstrap its bundled font)
	fontOp("font-bytes", []fontInput{{file: "A.ttf", names: []byte{'A'}}}, []byte{'A'}, false, func(e *Env, f []string) error {
		b, err := os.ReadFile(f[0])
		if err != nil {
			return err
		}
		return font.InstallFontFromBytes(e.FontDir, gen.FontName('A'), b)
	})
	fontOp("font-bytes-quiet", []fontInput{{file: "A.ttf", names: []byte{'A'}}}, []byte{'A'}, false, func(e *Env, f []string) error {
		b, err := os.ReadFile(f[0])
		if err != nil {
			return err
		}
		return font.InstallFontFromBytesQuiet(e.FontDir, gen.FontName('A'), b)
	})
	fontOp("font-ttc", []fontInput{{file: "BC.ttc", names: []byte{'B', 'C'}}}, []byte{'B', 'C'}, false, func(e *Env, f []string) error {
		_, err := font.InstallTrueTypeCollection(e.FontDir, f[0])
		return err
	})
	fontOp("fonts-batch1", []fontInput{{file: "A.ttf", names: []byte{'A'}}}, []byte{'A'}, false, func(e *Env, f []string) error {
		return api.InstallFonts(f)
	})
	fontOp("fonts-batch2", []fontInput{{file: "A.ttf", names: []byte{'A'}}, {file: "B.ttf", names: []byte{'B'}}}, []byte{'A', 'B'}, false, func(e *Env, f []string) error {
		return api.InstallFonts(f)
	})
	fontOp("fonts-batch3", []fontInput{{file: "A.ttf", names: []byte{'A'}}, {file: "BC.ttc", names: []byte{'B', 'C'}}}, []byte{'A', 'B', 'C'}, false, func(e *Env, f []string) error {
		return api.InstallFonts(f)
	})
	fontOp("fonts-batch2-reloadfail", []fontInput{{file: "A.ttf", names: []byte{'A'}}, {file: "B.ttf", names: []byte{'B'}}}, []byte{'A', 'B'}, true, func(e *Env, f []string) error {
		return api.InstallFonts(f)
	}).Note = "reload-fails"
	// invalid input discovered mid-batch: the collection repeats a name the batch already installed
	fontOp("fonts-batch-dup", []fontInput{{file: "A.ttf", names: []byte{'A'}}, {file: "AB.ttc", names: []byte{'A', 'B'}}}, []byte{'A', 'B'}, true, func(e *Env, f []string) error {
		return api.InstallFonts(f)
	})
	fontOp("fonts-batch-invalid2", []fontInput{{file: "A.ttf", names: []byte{'A'}}, {file: "bad.ttf", raw: []byte("\x00\x01\x00\x00 this is not a font")}, {file: "B.ttf", names: []byte{'B'}}}, []byte{'A', 'B'}, true, func(e *Env, f []string) error {
		return api.InstallFonts(f)
	})

	certOp("certs-import1", map[string][]byte{"a.pem": gen.CertPEM("a")}, []string{"a.pem"}, []string{"a.p7c"}, false)
	certOp("certs-import3", map[string][]byte{"a.pem": gen.CertPEM("a"), "b.pem": append(gen.CertPEM("b1"), gen.CertPEM("b2")...), "c.pem": gen.CertPEM("c")},
		[]string{"a.pem", "b.pem", "c.pem"}, []string{"a.p7c", "b.p7c", "c.p7c"}, false)
	certOp("certs-import-bad2", map[string][]byte{"a.pem": gen.CertPEM("a"), "b.pem": []byte("-----BEGIN CERTIFICATE-----\nbm90IGEgY2VydA==\n-----END CERTIFICATE-----\n"), "c.pem": gen.CertPEM("c")},
		[]string{"a.pem", "b.pem", "c.pem"}, []string{"a.p7c", "b.p7c", "c.p7c"}, true)
	certOp("certs-import-samedest", map[string][]byte{"a.pem": gen.CertPEM("a"), "sub/a.pem": gen.CertPEM("a2")},
		[]string{"a.pem", "sub/a.pem"}, []string{"a.p7c"}, true)
}

// ---- font cheat sheets (api.CreateUserFontDemoFiles, api.CreateCheatSheetsUserFonts): a batch of PDFs, one per
// covered Unicode plane and font, staged in a hidden directory and published into the sheet directory.

// OldSheetContent is what a pre-existing cheat sheet holds before the call.
var OldSheetContent = []byte("%PDF-OLD cheat sheet generated by an earlier run\n")

var sheetNames = map[string][]string{} // op name -> names the fault-free call publishes (computed once per process)

func sheetOp(name string, letters []byte, natural bool, run func(e *Env, dir string) error) *Op {
	o := &Op{Name: name, Family: "install", Rels: []string{RelFresh, RelPreexisting, RelPartial}, NaturalFail: natural}
	o.SetupInstall = func(e *Env, rel string) error {
		sheets := filepath.Join(e.Root, "sheets")
		if err := os.Mkdir(sheets, 0755); err != nil {
			return err
		}
		os.WriteFile(filepath.Join(sheets, "bystander.pdf"), []byte("not a cheat sheet, must not be touched"), 0644)
		tmp := filepath.Join(e.Tmp, "new.ttf")
		for _, c := range append([]byte{'Z'}, letters...) {
			if err := os.WriteFile(tmp, gen.Variant(c, 0), 0644); err != nil {
				return err
			}
			if _, err := font.InstallTrueTypeFont(e.FontDir, tmp); err != nil {
				return fmt.Errorf("preinstall %c: %w", c, err)
			}
		}
		os.Remove(tmp)
		font.UserFontDir = e.FontDir
		if err := font.ReloadUserFonts(); err != nil {
			return err
		}
		names, ok := sheetNames[name]
		if !ok {
			// learn the published names from one call outside the simulation
			probe := filepath.Join(e.Tmp, "probe")
			os.Mkdir(probe, 0755)
			wd, _ := os.Getwd()
			os.Chdir(probe)
			err := run(e, probe)
			os.Chdir(wd)
			if err != nil && !natural {
				return fmt.Errorf("probe run: %w", err)
			}
			ents, _ := os.ReadDir(probe)
			for _, d := range ents {
				if d.Name()[0] == '.' {
					return fmt.Errorf("probe run left %s", d.Name())
				}
				names = append(names, d.Name())
			}
			if natural {
				// nothing is published by a naturally failing batch; its would-be targets are the valid fonts' sheets
				for _, c := range letters {
					names = append(names, gen.FontName(c)+"_BMP.pdf")
				}
			}
			os.RemoveAll(probe)
			sheetNames[name] = names
		}
		for _, n := range names {
			e.Targets = append(e.Targets, "sheets/"+n)
		}
		pre := names
		switch rel {
		case RelFresh:
			pre = nil
		case RelPartial:
			pre = pre[:1]
		}
		for _, n := range pre {
			p := filepath.Join(sheets, n)
			if err := os.WriteFile(p, OldSheetContent, 0640); err != nil {
				return err
			}
			os.Chmod(p, 0640)
		}
		e.Chdir = sheets
		return nil
	}
	o.Run = func(e *Env) error {
		font.UserFontDir = e.FontDir
		return run(e, filepath.Join(e.Root, "sheets"))
	}
	register(o)
	return o
}

func init() {
	sheetOp("sheets-demo1", []byte{'A'}, false, func(e *Env, dir string) error {
		return api.CreateUserFontDemoFiles(dir, gen.FontName('A'))
	})
	// the batch API publishes into the current directory
	sheetOp("sheets-batch2", []byte{'A', 'B'}, false, func(e *Env, dir string) error {
		return api.CreateCheatSheetsUserFonts([]string{gen.FontName('B'), gen.FontName('A')})
	})
	// a font name that is not installed is discovered after the user fonts are loaded
	sheetOp("sheets-batch-unknown", []byte{'A'}, true, func(e *Env, dir string) error {
		return api.CreateCheatSheetsUserFonts([]string{gen.FontName('A'), "NoSuchFont"})
	})
}
