// Package ops is the catalogue of file-based pdfcpu operations the simulator drives. Every op is
// the real public API (pkg/api, pkg/cli); nothing of pdfcpu is stubbed here.
package ops

import (
	"fmt"
	"os"
	"path/filepath"
	"sort"
	"strings"
)

const (
	TestData = "/repo/pkg/testdata"
	Samples  = "/repo/pkg/samples"
)

// Path relations between input and output for single-output ops.
const (
	RelInPlace   = "inplace"   // outFile == ""
	RelSame      = "same"      // outFile == inFile (identical string)
	RelNew       = "new"       // outFile does not exist
	RelExisting  = "existing"  // outFile exists (old content, non-default mode)
	RelExisting0 = "existing0" // outFile exists and is empty (the mktemp/touch pattern)
	// RelExistingLink: outFile is a symbolic link to an existing regular file elsewhere (out/store/current.pdf,
	// old content): whichever of the two the operation replaces, neither may ever hold a torn state
	RelExistingLink = "existing-link"
	// RelExistingSameSize: outFile exists, is exactly as long as the input and newer, but holds other bytes
	// (a "looks up to date" short cut must not take it for the result)
	RelExistingSameSize = "existing-samesize"
	// C03 only: aliases of the input
	RelDotSlash = "dotslash" // out = dir/./in.pdf
	RelRelAbs   = "relabs"   // in absolute, out relative to cwd (cwd = in dir)
	RelSymlink  = "symlink"  // out is a symlink to in
	RelHardlink = "hardlink" // out is a hard link to in
)

// Env is one sandbox laid out for one op config.
type Env struct {
	Root    string
	InDir   string
	OutDir  string
	Tmp     string
	In      []string // absolute paths of the copied inputs, in op.Inputs order
	Aux     []string // absolute paths of auxiliary inputs
	Out     string   // output path for single-output ops ("" for in-place)
	Rel     string
	Dest    string // the path that receives the result (input for in-place)
	OldOut  []byte // previous content of an existing output
	OutMode os.FileMode
	Chdir   string // harness must chdir here before Run (RelRelAbs)
	// install family
	FontDir string
	CertDir string
	Targets []string // sandbox-relative paths the op publishes
}

// Op is one catalogue entry.
type Op struct {
	Name   string
	Family string   // single | multi-in | outdir | json
	Inputs []string // paths relative to TestData (or absolute)
	Aux    []string // auxiliary inputs, copied to in/ as well
	Rels   []string // supported relations
	// PrepareOnce runs before the sandbox is snapshotted, outside simulation (e.g. to turn the copied
	// input into an encrypted one).
	Prepare func(e *Env) error
	Run     func(e *Env) error
	// OutDirOp: op writes several files below e.OutDir.
	OutDirOp bool
	// SetupInstall lays out inputs and pre-existing targets of an install-family op.
	SetupInstall func(e *Env, rel string) error
	// NaturalFail: the op is expected to fail without any injected fault (invalid input mid-batch).
	NaturalFail bool
	// OutPW: passwords that open the op's result (user, owner).
	OutPW [2]string
	Note  string
	// NeedsUserFont: the op needs the user font Roboto-Regular (form appearance streams); the engine points
	// font.UserFontDir at a process-wide directory outside the sandbox before the run.
	NeedsUserFont bool
}

var registry = map[string]*Op{}

func register(o *Op) {
	if _, dup := registry[o.Name]; dup {
		panic("duplicate op " + o.Name)
	}
	if len(o.Rels) == 0 && !o.OutDirOp {
		o.Rels = []string{RelInPlace, RelSame, RelNew, RelExisting, RelExisting0}
	}
	if o.OutDirOp && len(o.Rels) == 0 {
		// populated-ro: the pre-existing files of the output directory are read-only (0444)
		o.Rels = []string{"emptydir", "populated", "populated-ro"}
	}
	registry[o.Name] = o
}

// Get returns an op by name.
func Get(name string) *Op { return registry[name] }

// Names lists all ops, sorted.
func Names() []string {
	var nn []string
	for n := range registry {
		nn = append(nn, n)
	}
	sort.Strings(nn)
	return nn
}

func src(p string) string {
	if filepath.IsAbs(p) {
		return p
	}
	if strings.HasPrefix(p, "samples/") {
		return filepath.Join(Samples, strings.TrimPrefix(p, "samples/"))
	}
	return filepath.Join(TestData, p)
}

var fileCache = map[string][]byte{}

func readCached(p string) ([]byte, error) {
	if b, ok := fileCache[p]; ok {
		return b, nil
	}
	b, err := os.ReadFile(p)
	if err != nil {
		return nil, err
	}
	fileCache[p] = b
	return b, nil
}

// OldOutputContent is what a pre-existing output holds before the op.
var OldOutputContent = []byte("%PDF-OLD previous output content that must survive a failed operation\n")

// Setup lays out a fresh sandbox for (op, rel) under root (which must exist and be empty).
func Setup(o *Op, rel string, root string, outMode os.FileMode) (*Env, error) {
	e := &Env{Root: root, InDir: filepath.Join(root, "in"), OutDir: filepath.Join(root, "out"), Tmp: filepath.Join(root, "tmp"), Rel: rel, OutMode: outMode}
	for _, d := range []string{e.InDir, e.OutDir, e.Tmp} {
		if err := os.Mkdir(d, 0755); err != nil {
			return nil, err
		}
	}
	for i, in := range o.Inputs {
		b, err := readCached(src(in))
		if err != nil {
			return nil, err
		}
		name := fmt.Sprintf("in%d%s", i, filepath.Ext(in))
		p := filepath.Join(e.InDir, name)
		if err := os.WriteFile(p, b, 0640); err != nil {
			return nil, err
		}
		os.Chmod(p, 0640)
		e.In = append(e.In, p)
	}
	for _, a := range o.Aux {
		b, err := readCached(src(a))
		if err != nil {
			return nil, err
		}
		p := filepath.Join(e.InDir, "aux_"+filepath.Base(a))
		if err := os.WriteFile(p, b, 0644); err != nil {
			return nil, err
		}
		e.Aux = append(e.Aux, p)
	}
	// bystanders that nothing may touch
	os.WriteFile(filepath.Join(e.InDir, "bystander.bin"), []byte("bystander in input dir"), 0600)
	os.WriteFile(filepath.Join(e.OutDir, "bystander.txt"), []byte("bystander in output dir"), 0644)

	if o.Family == "install" {
		e.FontDir = filepath.Join(root, "fonts")
		e.CertDir = filepath.Join(root, "certs")
		e.Dest = ""
		if rel == RelSymlinkDir {
			// the font directory path is a symbolic link to the real directory
			os.Mkdir(filepath.Join(root, "realfonts"), 0755)
			os.Symlink(filepath.Join(root, "realfonts"), e.FontDir)
		}
		os.Mkdir(e.FontDir, 0755)
		os.Mkdir(e.CertDir, 0755)
		os.WriteFile(filepath.Join(e.FontDir, "notes.txt"), []byte("not a font, must not be touched"), 0644)
		os.WriteFile(filepath.Join(e.CertDir, "bystander.p7c"), []byte("not a certificate, must not be touched"), 0644)
		if err := o.SetupInstall(e, rel); err != nil {
			return nil, fmt.Errorf("setup %s/%s: %w", o.Name, rel, err)
		}
		return e, nil
	}
	if o.Prepare != nil {
		if err := o.Prepare(e); err != nil {
			return nil, fmt.Errorf("prepare %s: %w", o.Name, err)
		}
	}
	if o.OutDirOp {
		return e, nil
	}
	ext := ".pdf"
	if o.Family == "json" {
		ext = ".json"
	}
	switch rel {
	case RelInPlace:
		e.Out = ""
		e.Dest = e.In[0]
	case RelSame:
		e.Out = e.In[0]
		e.Dest = e.In[0]
	case RelNew:
		e.Out = filepath.Join(e.OutDir, "out"+ext)
		e.Dest = e.Out
	case RelExisting:
		e.Out = filepath.Join(e.OutDir, "out"+ext)
		e.Dest = e.Out
		e.OldOut = OldOutputContent
		if err := os.WriteFile(e.Out, e.OldOut, outMode); err != nil {
			return nil, err
		}
		os.Chmod(e.Out, outMode)
	case RelExisting0:
		e.Out = filepath.Join(e.OutDir, "out"+ext)
		e.Dest = e.Out
		e.OldOut = []byte{}
		if err := os.WriteFile(e.Out, nil, outMode); err != nil {
			return nil, err
		}
		os.Chmod(e.Out, outMode)
	case RelExistingSameSize:
		e.Out = filepath.Join(e.OutDir, "out"+ext)
		e.Dest = e.Out
		in, err := os.ReadFile(e.In[0])
		if err != nil {
			return nil, err
		}
		old := append([]byte(nil), in...)
		for i := len(old) / 3; i < len(old)/3+64 && i < len(old); i++ {
			old[i] ^= 0x55
		}
		e.OldOut = old
		if err := os.WriteFile(e.Out, old, outMode); err != nil {
			return nil, err
		}
		os.Chmod(e.Out, outMode)
	case RelExistingLink:
		store := filepath.Join(e.OutDir, "store")
		if err := os.Mkdir(store, 0755); err != nil {
			return nil, err
		}
		target := filepath.Join(store, "current"+ext)
		e.OldOut = OldOutputContent
		if err := os.WriteFile(target, e.OldOut, outMode); err != nil {
			return nil, err
		}
		os.Chmod(target, outMode)
		e.Out = filepath.Join(e.OutDir, "out"+ext)
		if err := os.Symlink(target, e.Out); err != nil {
			return nil, err
		}
		e.Dest = e.Out
	case "append":
		// destination is an existing valid PDF that the op extends
		e.Out = filepath.Join(e.OutDir, "out"+ext)
		e.Dest = e.Out
		b, err := readCached(src("testRot.pdf"))
		if err != nil {
			return nil, err
		}
		e.OldOut = b
		if err := os.WriteFile(e.Out, b, outMode); err != nil {
			return nil, err
		}
		os.Chmod(e.Out, outMode)
	case RelDotSlash:
		e.Out = filepath.Dir(e.In[0]) + "/./" + filepath.Base(e.In[0])
		e.Dest = e.In[0]
	case RelRelAbs:
		e.Out = filepath.Base(e.In[0])
		e.Dest = e.In[0]
		e.Chdir = e.InDir
	case RelSymlink:
		e.Out = filepath.Join(e.OutDir, "link.pdf")
		if err := os.Symlink(e.In[0], e.Out); err != nil {
			return nil, err
		}
		e.Dest = e.Out
	case RelHardlink:
		e.Out = filepath.Join(e.OutDir, "hard.pdf")
		if err := os.Link(e.In[0], e.Out); err != nil {
			return nil, err
		}
		e.Dest = e.Out
	default:
		return nil, fmt.Errorf("unknown relation %q", rel)
	}
	if rel != RelExisting && outMode != 0 && (rel == RelInPlace || rel == RelSame || rel == RelDotSlash || rel == RelRelAbs) {
		os.Chmod(e.In[0], outMode)
	}
	return e, nil
}
