package ops

import (
	"os"
	"path/filepath"

	"github.com/pdfcpu/pdfcpu/pkg/api"
	"github.com/pdfcpu/pdfcpu/pkg/cli"
	"github.com/pdfcpu/pdfcpu/pkg/pdfcpu"
	"github.com/pdfcpu/pdfcpu/pkg/pdfcpu/color"
	"github.com/pdfcpu/pdfcpu/pkg/pdfcpu/model"
	"github.com/pdfcpu/pdfcpu/pkg/pdfcpu/types"
)

func conf() *model.Configuration {
	c := model.NewDefaultConfiguration()
	return c
}

const (
	upw = "user-pw"
	opw = "owner-pw"
)

func encConf() *model.Configuration {
	return model.NewAESConfiguration(upw, opw, 256)
}

// prepareEncrypted turns in0 into an AES-256 encrypted file (outside simulation).
func prepareEncrypted(e *Env) error {
	if err := api.EncryptFile(e.In[0], "", encConf()); err != nil {
		return err
	}
	return os.Chmod(e.In[0], 0640)
}

func single(name string, inputs []string, run func(e *Env) error) *Op {
	o := &Op{Name: name, Family: "single", Inputs: inputs, Run: run}
	register(o)
	return o
}

func init() {
	small := []string{"test.pdf"}
	zine := []string{"zineTest.pdf"}

	single("optimize", small, func(e *Env) error { return api.OptimizeFile(e.In[0], e.Out, conf()) })
	single("optimize-zine", zine, func(e *Env) error { return api.OptimizeFile(e.In[0], e.Out, conf()) })
	single("rotate", []string{"testRot.pdf"}, func(e *Env) error { return api.RotateFile(e.In[0], e.Out, 90, nil, conf()) })
	single("encrypt", small, func(e *Env) error { return api.EncryptFile(e.In[0], e.Out, encConf()) }).OutPW = [2]string{upw, opw}
	single("decrypt", small, func(e *Env) error {
		c := encConf()
		return api.DecryptFile(e.In[0], e.Out, c)
	}).Prepare = prepareEncrypted
	o0 := single("changeupw", small, func(e *Env) error {
		return api.ChangeUserPasswordFile(e.In[0], e.Out, upw, "new-user", model.NewAESConfiguration(upw, opw, 256))
	})
	o0.Prepare = prepareEncrypted
	o0.OutPW = [2]string{"new-user", opw}
	o0 = single("changeopw", small, func(e *Env) error {
		return api.ChangeOwnerPasswordFile(e.In[0], e.Out, opw, "new-owner", model.NewAESConfiguration(upw, opw, 256))
	})
	o0.Prepare = prepareEncrypted
	o0.OutPW = [2]string{upw, "new-owner"}
	o0 = single("setperms", small, func(e *Env) error {
		c := encConf()
		c.Permissions = model.PermissionsAll
		return api.SetPermissionsFile(e.In[0], e.Out, c)
	})
	o0.Prepare = prepareEncrypted
	o0.OutPW = [2]string{upw, opw}
	single("keywords-add", small, func(e *Env) error {
		return api.AddKeywordsFile(e.In[0], e.Out, []string{"alpha", "Ünicode ключ"}, conf())
	})
	single("keywords-remove", small, func(e *Env) error {
		return api.RemoveKeywordsFile(e.In[0], e.Out, []string{"alpha"}, conf())
	}).Prepare = func(e *Env) error { return api.AddKeywordsFile(e.In[0], "", []string{"alpha", "beta"}, conf()) }
	single("properties-add", small, func(e *Env) error {
		return api.AddPropertiesFile(e.In[0], e.Out, map[string]string{"Project": "Ω verification", "k2": "v2"}, conf())
	})
	single("properties-remove", small, func(e *Env) error {
		return api.RemovePropertiesFile(e.In[0], e.Out, []string{"Project"}, conf())
	}).Prepare = func(e *Env) error {
		return api.AddPropertiesFile(e.In[0], "", map[string]string{"Project": "x", "Other": "y"}, conf())
	}
	single("pagelayout-set", small, func(e *Env) error {
		return api.SetPageLayoutFile(e.In[0], e.Out, model.PageLayoutTwoColumnLeft, conf())
	})
	single("pagelayout-reset", small, func(e *Env) error { return api.ResetPageLayoutFile(e.In[0], e.Out, conf()) })
	single("pagemode-set", small, func(e *Env) error {
		return api.SetPageModeFile(e.In[0], e.Out, model.PageModeUseOutlines, conf())
	})
	single("pagemode-reset", small, func(e *Env) error { return api.ResetPageModeFile(e.In[0], e.Out, conf()) })
	single("viewerpref-set", small, func(e *Env) error {
		return api.SetViewerPreferencesFileFromJSONBytes(e.In[0], e.Out, []byte(`{"viewerPreferences":{"HideToolbar":true,"Duplex":"Simplex"}}`), conf())
	})
	single("viewerpref-reset", small, func(e *Env) error { return api.ResetViewerPreferencesFile(e.In[0], e.Out, conf()) })
	single("watermark-text", zine, func(e *Env) error {
		return api.AddTextWatermarksFile(e.In[0], e.Out, nil, true, "Draft", "scale:.5, rot:20", conf())
	})
	single("watermark-remove", zine, func(e *Env) error {
		return api.RemoveWatermarksFile(e.In[0], e.Out, nil, conf())
	}).Prepare = func(e *Env) error {
		return api.AddTextWatermarksFile(e.In[0], "", nil, true, "Draft", "scale:.5", conf())
	}
	o := single("watermark-image", zine, func(e *Env) error {
		return api.AddImageWatermarksFile(e.In[0], e.Out, nil, false, e.Aux[0], "scale:.3", conf())
	})
	o.Aux = []string{"resources/logoVerySmall.png"}
	o = single("watermark-pdf", zine, func(e *Env) error {
		return api.AddPDFWatermarksFile(e.In[0], e.Out, nil, false, e.Aux[0], "scale:.3", conf())
	})
	o.Aux = []string{"test.pdf"}
	o = single("attach-add", small, func(e *Env) error {
		return api.AddAttachmentsFile(e.In[0], e.Out, []string{e.Aux[0], e.Aux[1]}, false, conf())
	})
	o.Aux = []string{"resources/logoVerySmall.png", "json/viewerPreferences.json"}
	o = single("attach-remove", small, func(e *Env) error {
		return api.RemoveAttachmentsFile(e.In[0], e.Out, []string{"aux_logoVerySmall.png"}, conf())
	})
	o.Aux = []string{"resources/logoVerySmall.png", "json/viewerPreferences.json"}
	o.Prepare = func(e *Env) error {
		return api.AddAttachmentsFile(e.In[0], "", []string{e.Aux[0], e.Aux[1]}, false, conf())
	}
	single("pages-insert", zine, func(e *Env) error {
		return api.InsertPagesFile(e.In[0], e.Out, []string{"2"}, true, nil, conf())
	})
	single("pages-remove", zine, func(e *Env) error {
		return api.RemovePagesFile(e.In[0], e.Out, []string{"2-3"}, conf())
	})
	single("trim", zine, func(e *Env) error { return api.TrimFile(e.In[0], e.Out, []string{"1-3"}, conf()) })
	single("collect", zine, func(e *Env) error {
		return api.CollectFile(e.In[0], e.Out, []string{"3", "1", "1"}, conf())
	})
	single("boxes-add", zine, func(e *Env) error {
		pb, err := api.PageBoundaries("crop:[10 10 200 200]", types.POINTS)
		if err != nil {
			return err
		}
		return api.AddBoxesFile(e.In[0], e.Out, nil, pb, conf())
	})
	single("boxes-remove", zine, func(e *Env) error {
		pb, err := api.PageBoundariesFromBoxList("crop")
		if err != nil {
			return err
		}
		return api.RemoveBoxesFile(e.In[0], e.Out, nil, pb, conf())
	}).Prepare = func(e *Env) error {
		pb, err := api.PageBoundaries("crop:[10 10 200 200]", types.POINTS)
		if err != nil {
			return err
		}
		return api.AddBoxesFile(e.In[0], "", nil, pb, conf())
	}
	single("crop", zine, func(e *Env) error {
		b, err := api.Box("[0 0 150 150]", types.POINTS)
		if err != nil {
			return err
		}
		return api.CropFile(e.In[0], e.Out, nil, b, conf())
	})
	single("resize", zine, func(e *Env) error {
		r, err := pdfcpu.ParseResizeConfig("scale:.5", types.POINTS)
		if err != nil {
			return err
		}
		return api.ResizeFile(e.In[0], e.Out, nil, r, conf())
	})
	single("zoom", zine, func(e *Env) error {
		z, err := pdfcpu.ParseZoomConfig("factor:.5", types.POINTS)
		if err != nil {
			return err
		}
		return api.ZoomFile(e.In[0], e.Out, nil, z, conf())
	})
	single("bookmarks-add", zine, func(e *Env) error {
		bms := []pdfcpu.Bookmark{{PageFrom: 1, Title: "One"}, {PageFrom: 3, Title: "Three ✓", Kids: []pdfcpu.Bookmark{{PageFrom: 4, Title: "kid"}}}}
		return api.AddBookmarksFile(e.In[0], e.Out, bms, true, conf())
	})
	single("bookmarks-remove", []string{"samples/bookmarks/bookmarkSimple.pdf"}, func(e *Env) error {
		return api.RemoveBookmarksFile(e.In[0], e.Out, conf())
	})
	o = single("bookmarks-import", []string{"samples/bookmarks/bookmarkTreeNoBookmarks.pdf"}, func(e *Env) error {
		return api.ImportBookmarksFile(e.In[0], e.Aux[0], e.Out, true, conf())
	})
	o.Aux = []string{"samples/bookmarks/bookmarkTree.json"}
	single("annotations-remove", []string{"annotTest.pdf"}, func(e *Env) error {
		return api.RemoveAnnotationsFile(e.In[0], e.Out, nil, nil, nil, conf(), false)
	})
	textAnn := func() model.AnnotationRenderer {
		return model.NewTextAnnotation(*types.NewRectangle(0, 0, 100, 100), 0, "Text Annotation", "ID1", "", 0, &color.Gray, "Title1", nil, nil, "", "", 0, 0, 2, false, "Comment")
	}
	single("annotations-add", small, func(e *Env) error {
		return api.AddAnnotationsFile(e.In[0], e.Out, []string{"1"}, textAnn(), conf(), false)
	})
	// incremental update: the annotation is appended as an increment to the written file
	single("annotations-add-incr", small, func(e *Env) error {
		return api.AddAnnotationsFile(e.In[0], e.Out, []string{"1"}, textAnn(), conf(), true)
	})
	o = single("form-fill", []string{"samples/form/demoSinglePage/english.pdf"}, func(e *Env) error {
		return api.FillFormFile(e.In[0], e.Aux[0], e.Out, conf())
	})
	o.Aux = []string{"samples/form/fill/english.json"}
	single("form-reset", []string{"samples/form/demoSinglePage/person.pdf"}, func(e *Env) error {
		return api.ResetFormFieldsFile(e.In[0], e.Out, nil, conf())
	})

	// ---- wider API coverage (second catalogue wave): every remaining public *File writer of pkg/api
	wmText := func(update bool) (*model.Watermark, error) {
		return api.TextWatermark("Map", "scale:.4, rot:10", true, update, types.POINTS)
	}
	single("watermarks-map", zine, func(e *Env) error {
		w1, err := wmText(false)
		if err != nil {
			return err
		}
		w2, err := api.TextWatermark("Other", "scale:.2, pos:bl", true, false, types.POINTS)
		if err != nil {
			return err
		}
		return api.AddWatermarksMapFile(e.In[0], e.Out, map[int]*model.Watermark{1: w1, 3: w2}, conf())
	})
	single("watermarks-slicemap", zine, func(e *Env) error {
		w1, err := wmText(false)
		if err != nil {
			return err
		}
		w2, err := api.TextWatermark("Second", "scale:.2, pos:tr", true, false, types.POINTS)
		if err != nil {
			return err
		}
		return api.AddWatermarksSliceMapFile(e.In[0], e.Out, map[int][]*model.Watermark{2: {w1, w2}}, conf())
	})
	single("watermark-update-text", zine, func(e *Env) error {
		return api.UpdateTextWatermarksFile(e.In[0], e.Out, nil, true, "Final", "scale:.5, rot:20", conf())
	}).Prepare = func(e *Env) error {
		return api.AddTextWatermarksFile(e.In[0], "", nil, true, "Draft", "scale:.5", conf())
	}
	o = single("watermark-update-image", zine, func(e *Env) error {
		return api.UpdateImageWatermarksFile(e.In[0], e.Out, nil, false, e.Aux[0], "scale:.2", conf())
	})
	o.Aux = []string{"resources/logoVerySmall.png"}
	o.Prepare = func(e *Env) error {
		return api.AddImageWatermarksFile(e.In[0], "", nil, false, e.Aux[0], "scale:.3", conf())
	}
	o = single("watermark-update-pdf", zine, func(e *Env) error {
		return api.UpdatePDFWatermarksFile(e.In[0], e.Out, nil, false, e.Aux[0], "scale:.2", conf())
	})
	o.Aux = []string{"test.pdf"}
	o.Prepare = func(e *Env) error {
		return api.AddPDFWatermarksFile(e.In[0], "", nil, false, e.Aux[0], "scale:.3", conf())
	}
	single("annotations-add-map", zine, func(e *Env) error {
		return api.AddAnnotationsMapFile(e.In[0], e.Out, map[int][]model.AnnotationRenderer{1: {textAnn()}, 2: {textAnn()}}, conf(), false)
	})
	single("form-lock", []string{"samples/form/demoSinglePage/person.pdf"}, func(e *Env) error {
		return api.LockFormFieldsFile(e.In[0], e.Out, nil, conf())
	}).NeedsUserFont = true
	o = single("form-unlock", []string{"samples/form/demoSinglePage/person.pdf"}, func(e *Env) error {
		return api.UnlockFormFieldsFile(e.In[0], e.Out, nil, conf())
	})
	o.NeedsUserFont = true
	o.Prepare = func(e *Env) error { return api.LockFormFieldsFile(e.In[0], "", nil, conf()) }
	single("form-remove-fields", []string{"samples/form/demo/english.pdf"}, func(e *Env) error {
		return api.RemoveFormFieldsFile(e.In[0], e.Out, []string{"dob1", "firstName1"}, conf())
	})
	single("signatures-remove", []string{"samples/signatures/ETSI.CAdES.detached/testPAdES_BB.pdf"}, func(e *Env) error {
		return api.RemoveSignaturesFile(e.In[0], e.Out, nil)
	})
	o = single("viewerpref-set-jsonfile", small, func(e *Env) error {
		return api.SetViewerPreferencesFileFromJSONFile(e.In[0], e.Out, e.Aux[0], conf())
	})
	o.Aux = []string{"json/viewerPreferences.json"}
	o = single("images-update", []string{"samples/images/test.pdf"}, func(e *Env) error {
		return api.UpdateImagesFile(e.In[0], e.Aux[0], e.Out, 8, 0, "", conf())
	})
	o.Aux = []string{"samples/images/test_1_Im1.png"}
	// a context read by the caller and written with WriteContextFile (no input file is open during the write)
	o = single("writecontextfile", zine, func(e *Env) error {
		ctx, err := api.ReadContextFile(e.In[0])
		if err != nil {
			return err
		}
		out := e.Out
		if out == "" {
			out = e.In[0]
		}
		return api.WriteContextFile(ctx, out)
	})
	o.Rels = []string{RelInPlace, RelNew, RelExisting, RelExisting0}
	// create with an input PDF that the JSON description extends
	o = single("create-json-onto-pdf", small, func(e *Env) error {
		return api.CreateFile(e.In[0], e.Aux[0], e.Out, conf())
	})
	o.Aux = []string{"json/create/textAndAlignment.json"}

	// the library's own file copy (pkg/pdfcpu/io.go): same staging machinery, same-file short cut for aliases
	o = single("copyfile", small, func(e *Env) error {
		out := e.Out
		if out == "" {
			out = e.In[0]
		}
		_, err := pdfcpu.CopyFile(e.In[0], out, true)
		return err
	})
	o.Rels = []string{RelInPlace, RelSame, RelNew, RelExisting, RelExisting0, RelExistingSameSize}

	// ---- CLI layer with the input on stdin: the pkg/cli stream plumbing (spooled input, createStreamOutput, finalizer)
	stdin := func(name string, inputs []string, run func(e *Env) error) {
		o := &Op{Name: name, Family: "single", Inputs: inputs, Rels: []string{RelNew, RelExisting, RelExisting0}}
		o.Run = func(e *Env) error {
			f, err := os.Open(e.In[0])
			if err != nil {
				return err
			}
			old := os.Stdin
			os.Stdin = f
			defer func() { os.Stdin = old; f.Close() }()
			return run(e)
		}
		register(o)
	}
	stdin("cli-stdin-optimize", zine, func(e *Env) error { _, err := cli.Optimize(cli.OptimizeCommand("-", e.Out, conf())); return err })
	stdin("cli-stdin-rotate", zine, func(e *Env) error { _, err := cli.Rotate(cli.RotateCommand("-", e.Out, 90, nil, conf())); return err })
	stdin("cli-stdin-trim", zine, func(e *Env) error {
		_, err := cli.Trim(cli.TrimCommand("-", e.Out, []string{"1-2"}, conf()))
		return err
	})
	stdin("cli-stdin-removepages", zine, func(e *Env) error {
		_, err := cli.RemovePages(cli.RemovePagesCommand("-", e.Out, []string{"1"}, conf()))
		return err
	})

	stdin("cli-stdin-collect", zine, func(e *Env) error {
		_, err := cli.Collect(cli.CollectCommand("-", e.Out, []string{"2", "1"}, conf()))
		return err
	})
	stdin("cli-stdin-watermark", zine, func(e *Env) error {
		wm, err := api.TextWatermark("CLI", "scale:.4", true, false, types.POINTS)
		if err != nil {
			return err
		}
		_, err = cli.AddWatermarks(cli.AddWatermarksCommand("-", e.Out, nil, wm, conf()))
		return err
	})
	stdin("cli-stdin-resize", zine, func(e *Env) error {
		r, err := pdfcpu.ParseResizeConfig("scale:.5", types.POINTS)
		if err != nil {
			return err
		}
		_, err = cli.Resize(cli.ResizeCommand("-", e.Out, nil, r, conf()))
		return err
	})
	stdin("cli-stdin-zoom", zine, func(e *Env) error {
		z, err := pdfcpu.ParseZoomConfig("factor:.5", types.POINTS)
		if err != nil {
			return err
		}
		_, err = cli.Zoom(cli.ZoomCommand("-", e.Out, nil, z, conf()))
		return err
	})
	stdin("cli-stdin-insertpages", zine, func(e *Env) error {
		_, err := cli.InsertPages(cli.InsertPagesCommand("-", e.Out, []string{"2"}, conf(), "before", nil))
		return err
	})
	stdin("cli-stdin-crop", zine, func(e *Env) error {
		b, err := api.Box("[0 0 150 150]", types.POINTS)
		if err != nil {
			return err
		}
		_, err = cli.Crop(cli.CropCommand("-", e.Out, nil, b, conf()))
		return err
	})
	stdin("cli-stdin-boxes-add", zine, func(e *Env) error {
		pb, err := api.PageBoundaries("crop:[10 10 200 200]", types.POINTS)
		if err != nil {
			return err
		}
		_, err = cli.AddBoxes(cli.AddBoxesCommand("-", e.Out, nil, pb, conf()))
		return err
	})
	stdin("cli-stdin-nup", zine, func(e *Env) error {
		nup, err := api.PDFNUpConfig(4, "", conf())
		if err != nil {
			return err
		}
		_, err = cli.NUp(cli.NUpCommand([]string{"-"}, e.Out, nil, nup, conf()))
		return err
	})
	stdin("cli-stdin-bookmarks-remove", []string{"samples/bookmarks/bookmarkSimple.pdf"}, func(e *Env) error {
		_, err := cli.RemoveBookmarks(cli.RemoveBookmarksCommand("-", e.Out, conf()))
		return err
	})
	stdin("cli-stdin-annotations-remove", []string{"annotTest.pdf"}, func(e *Env) error {
		_, err := cli.RemoveAnnotations(cli.RemoveAnnotationsCommand("-", e.Out, nil, nil, nil, conf()))
		return err
	})
	stdin("cli-stdin-keywords-add", small, func(e *Env) error {
		_, err := cli.AddKeywords(cli.AddKeywordsCommand("-", e.Out, []string{"cli", "ключ"}, conf()))
		return err
	})
	stdin("cli-stdin-properties-add", small, func(e *Env) error {
		_, err := cli.AddProperties(cli.AddPropertiesCommand("-", e.Out, map[string]string{"Via": "stdin"}, conf()))
		return err
	})
	stdin("cli-stdin-form-reset", []string{"samples/form/demoSinglePage/person.pdf"}, func(e *Env) error {
		_, err := cli.ResetFormFields(cli.ResetFormCommand("-", e.Out, nil, conf()))
		return err
	})
	stdin("cli-stdin-signatures-remove", []string{"samples/signatures/ETSI.CAdES.detached/testPAdES_BB.pdf"}, func(e *Env) error {
		_, err := cli.RemoveSignatures(cli.RemoveSignaturesCommand("-", e.Out, conf()))
		return err
	})

	// ---- merge family: inputs in0..inN, destination is a separate out file
	merge := func(name string, inputs []string, rels []string, run func(e *Env) error) *Op {
		o := &Op{Name: name, Family: "multi-in", Inputs: inputs, Rels: rels, Run: run}
		register(o)
		return o
	}
	merge("merge-create", []string{"test.pdf", "testRot.pdf", "zineTest.pdf"}, []string{RelNew, RelExisting}, func(e *Env) error {
		return api.MergeCreateFile(e.In, e.Out, false, conf())
	})
	merge("merge-create-divider", []string{"test.pdf", "testRot.pdf"}, []string{RelNew, RelExisting}, func(e *Env) error {
		return api.MergeCreateFile(e.In, e.Out, true, conf())
	})
	merge("merge-zip", []string{"zineTest.pdf", "bookletTestA6.pdf"}, []string{RelNew, RelExisting}, func(e *Env) error {
		return api.MergeCreateZipFile(e.In[0], e.In[1], e.Out, conf())
	})
	// merge-append: destination must be an existing PDF; handled by relation "append"
	merge("merge-append", []string{"test.pdf", "testRot.pdf"}, []string{"append"}, func(e *Env) error {
		return api.MergeAppendFile(e.In, e.Out, false, conf())
	})
	merge("nup", []string{"zineTest.pdf"}, []string{RelNew, RelExisting, RelSame}, func(e *Env) error {
		nup, err := api.PDFNUpConfig(4, "", conf())
		if err != nil {
			return err
		}
		return api.NUpFile(e.In, e.Out, nil, nup, conf())
	})
	merge("grid", []string{"zineTest.pdf"}, []string{RelNew, RelExisting, RelSame}, func(e *Env) error {
		nup, err := api.PDFGridConfig(1, 2, "", conf())
		if err != nil {
			return err
		}
		return api.GridFile(e.In, e.Out, nil, nup, conf())
	})
	merge("booklet", []string{"zineTest.pdf"}, []string{RelNew, RelExisting, RelSame}, func(e *Env) error {
		nup, err := api.PDFBookletConfig(4, "", conf())
		if err != nil {
			return err
		}
		return api.BookletFile(e.In, e.Out, nil, nup, conf())
	})
	merge("import-images", []string{"resources/logoVerySmall.png", "resources/logoSmall.png"}, []string{RelNew, "append"}, func(e *Env) error {
		return api.ImportImagesFile(e.In, e.Out, nil, conf())
	})
	merge("create-json", []string{"json/create/textAndAlignment.json"}, []string{RelNew, RelExisting}, func(e *Env) error {
		return api.CreateFile("", e.In[0], e.Out, conf())
	})

	// ---- json outputs
	j := &Op{Name: "form-export", Family: "json", Inputs: []string{"samples/form/demoSinglePage/english.pdf"}, Rels: []string{RelNew, RelExisting},
		Run: func(e *Env) error { return api.ExportFormFile(e.In[0], e.Out, conf()) }}
	register(j)
	j = &Op{Name: "bookmarks-export", Family: "json", Inputs: []string{"samples/bookmarks/bookmarkTree.pdf"}, Rels: []string{RelNew, RelExisting},
		Run: func(e *Env) error { return api.ExportBookmarksFile(e.In[0], e.Out, conf()) }}
	register(j)

	// ---- output-directory family
	outdir := func(name string, inputs []string, run func(e *Env) error) *Op {
		o := &Op{Name: name, Family: "outdir", Inputs: inputs, OutDirOp: true, Run: run}
		register(o)
		return o
	}
	outdir("split", zine, func(e *Env) error { return api.SplitFile(e.In[0], e.OutDir, 2, conf()) })
	outdir("split-pagenr", zine, func(e *Env) error { return api.SplitByPageNrFile(e.In[0], e.OutDir, []int{2, 5}, conf()) })
	outdir("split-bookmarks", []string{"samples/bookmarks/bookmarkSimple.pdf"}, func(e *Env) error { return api.SplitFile(e.In[0], e.OutDir, 0, conf()) })
	outdir("extract-pages", zine, func(e *Env) error { return api.ExtractPagesFile(e.In[0], e.OutDir, []string{"1", "3"}, conf()) })
	outdir("extract-images", []string{"testImage.pdf"}, func(e *Env) error { return api.ExtractImagesFile(e.In[0], e.OutDir, nil, conf()) })
	outdir("extract-fonts", []string{"testWithText.pdf"}, func(e *Env) error { return api.ExtractFontsFile(e.In[0], e.OutDir, nil, conf()) })
	outdir("extract-content", zine, func(e *Env) error { return api.ExtractContentFile(e.In[0], e.OutDir, []string{"1-2"}, conf()) })
	outdir("extract-metadata", []string{"Walden.pdf"}, func(e *Env) error { return api.ExtractMetadataFile(e.In[0], e.OutDir, conf()) })
	o = outdir("extract-attachments", small, func(e *Env) error { return api.ExtractAttachmentsFile(e.In[0], e.OutDir, nil, conf()) })
	o.Aux = []string{"resources/logoVerySmall.png", "json/viewerPreferences.json"}
	o.Prepare = func(e *Env) error {
		return api.AddAttachmentsFile(e.In[0], "", []string{e.Aux[0], e.Aux[1]}, false, conf())
	}
	outdir("cut", []string{"test.pdf"}, func(e *Env) error {
		c, err := pdfcpu.ParseCutConfig("hor:.5, ver:.5", types.POINTS)
		if err != nil {
			return err
		}
		return api.CutFile(e.In[0], e.OutDir, "cutout", nil, c, conf())
	})
	outdir("ndown", []string{"test.pdf"}, func(e *Env) error {
		c, err := pdfcpu.ParseCutConfigForN(2, "", types.POINTS)
		if err != nil {
			return err
		}
		return api.NDownFile(e.In[0], e.OutDir, "nd", nil, 2, c, conf())
	})
	outdir("poster", []string{"test.pdf"}, func(e *Env) error {
		c, err := pdfcpu.ParseCutConfigForPoster("f:A6", types.POINTS)
		if err != nil {
			return err
		}
		return api.PosterFile(e.In[0], e.OutDir, "post", nil, c, conf())
	})

	// CLI layer with stdin for output-directory commands: api.ExtractX(rs, ..., WriteXToDisk(outDir, "stdin")) and api.Split(rs, ...)
	stdinDir := func(name string, inputs []string, run func(e *Env) error) {
		o := outdir(name, inputs, nil)
		o.Run = func(e *Env) error {
			f, err := os.Open(e.In[0])
			if err != nil {
				return err
			}
			old := os.Stdin
			os.Stdin = f
			defer func() { os.Stdin = old; f.Close() }()
			return run(e)
		}
	}
	stdinDir("cli-stdin-split", zine, func(e *Env) error { _, err := cli.Split(cli.SplitCommand("-", e.OutDir, 2, conf())); return err })
	stdinDir("cli-stdin-extract-pages", zine, func(e *Env) error {
		_, err := cli.ExtractPages(cli.ExtractPagesCommand("-", e.OutDir, []string{"1", "3"}, conf()))
		return err
	})
	stdinDir("cli-stdin-extract-images", []string{"testImage.pdf"}, func(e *Env) error {
		_, err := cli.ExtractImages(cli.ExtractImagesCommand("-", e.OutDir, nil, conf()))
		return err
	})
	stdinDir("cli-stdin-extract-content", zine, func(e *Env) error {
		_, err := cli.ExtractContent(cli.ExtractContentCommand("-", e.OutDir, []string{"1-2"}, conf()))
		return err
	})

	o = outdir("multifill-json", []string{"samples/form/demoSinglePage/english.pdf"}, func(e *Env) error {
		return api.MultiFillFormFile(e.In[0], e.Aux[0], e.OutDir, filepath.Base(e.In[0]), false, conf())
	})
	o.Aux = []string{"samples/form/multifill/json/english.json"}
	o = outdir("multifill-json-merge", []string{"samples/form/demoSinglePage/english.pdf"}, func(e *Env) error {
		return api.MultiFillFormFile(e.In[0], e.Aux[0], e.OutDir, filepath.Base(e.In[0]), true, conf())
	})
	o.Aux = []string{"samples/form/multifill/json/english.json"}
	o = outdir("multifill-csv-merge", []string{"samples/form/demoSinglePage/english.pdf"}, func(e *Env) error {
		return api.MultiFillFormFile(e.In[0], e.Aux[0], e.OutDir, filepath.Base(e.In[0]), true, conf())
	})
	o.Aux = []string{"samples/form/multifill/csv/english.csv"}
	o = outdir("multifill-csv", []string{"samples/form/demoSinglePage/english.pdf"}, func(e *Env) error {
		return api.MultiFillFormFile(e.In[0], e.Aux[0], e.OutDir, filepath.Base(e.In[0]), false, conf())
	})
	o.Aux = []string{"samples/form/multifill/csv/english.csv"}
}
