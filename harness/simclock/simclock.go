// Package simclock is the simulated wall clock: while installed, time.Now (hooked by overlay)
// returns a time that starts at a value derived from the run's seed and advances by one millisecond
// per reading. pdfcpu stamps documents with the current time and derives file identifiers from it;
// with the clock behind the seam the bytes it writes are a function of (code, input, seed).
package simclock

import (
	"sync/atomic"
	"time"
)

var (
	base  int64
	ticks atomic.Int64
	total atomic.Int64 // readings over all runs of the process (1 ms of simulated time each)
)

// TotalSeconds is the simulated time covered by all runs of this process so far.
func TotalSeconds() float64 { return float64(total.Load()+ticks.Load()) / 1000 }

func now() (int64, int64) {
	n := ticks.Add(1)
	return base + n/1000, (n % 1000) * 1000000
}

// Install starts simulated time for one run.
func Install(seed uint64) {
	base = 1767225600 + int64(seed%(365*86400)) // some second of 2026
	total.Add(ticks.Swap(0))
	time.VerifNow = now
}

// Uninstall returns to the wall clock.
func Uninstall() { time.VerifNow = nil }
