// Package simclock is the simulated wall clock: while installed, time.Now (hooked by overlay)
// returns a time that starts at a value derived from the run's seed and advances by one millisecond
// per reading. pdfcpu stamps documents with the current time and derives file identifiers from it;
// with the clock behind the seam the bytes it writes are a function of (code, input, seed).
//
// The counters are plain variables touched only inside //go:norace functions: every simulated run
// has exactly one goroutine running at a time (the cooperative scheduler guarantees it for C40), and
// an atomic counter would be a synchronisation point that the race detector sees - pdfcpu reads the
// clock at the start and end of every API call, which would order all of task A's work before all of
// task B's and hide every race between them.
package simclock

import "time"

var (
	base  int64
	ticks int64
	total int64 // readings over all runs of the process (1 ms of simulated time each)
)

//go:norace
func now() (int64, int64) {
	ticks++
	n := ticks
	return base + n/1000, (n % 1000) * 1000000
}

// TotalSeconds is the simulated time covered by all runs of this process so far.
//
//go:norace
func TotalSeconds() float64 { return float64(total+ticks) / 1000 }

// Install starts simulated time for one run.
//
//go:norace
func Install(seed uint64) {
	base = 1767225600 + int64(seed%(365*86400)) // some second of 2026
	total += ticks
	ticks = 0
	time.VerifNow = now
}

// Uninstall returns to the wall clock.
func Uninstall() { time.VerifNow = nil }
