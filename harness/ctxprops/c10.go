// Package ctxprops decides C10: cancellation of a document read. The seams already exist in the
// code (context.Context and io.ReadSeeker are interfaces), so nothing is instrumented: the
// simulator supplies a context whose cancellation becomes visible at a chosen poll, or at a chosen
// I/O call, and a counting ReadSeeker.
package ctxprops

import (
	"bytes"
	"context"
	"encoding/json"
	"errors"
	"fmt"
	"io"
	"math/rand/v2"
	"os"
	"path/filepath"
	"runtime"
	"runtime/debug"
	"sort"
	"strings"
	"time"

	"github.com/pdfcpu/pdfcpu/pkg/pdfcpu"
	"github.com/pdfcpu/pdfcpu/pkg/pdfcpu/model"
	"verif/core"
	"verif/engine"
	"verif/pdfgen"
	"verif/simclock"
	"verif/simfs"
)

// B is the statement-level bound for "promptly": work units (ReadSeeker calls, further polls) the
// reader may still perform after it has seen the cancellation, whatever the size of the document.
const B = 16

type c10 struct{}

func init() { core.Register(c10{}) }

func (c10) ID() string    { return "C10" }
func (c10) Level() string { return "fault_enumeration" }
func (c10) Rule() string {
	return "per document: one uncancelled read counts P polls of the context and R ReadSeeker calls; then cancellation is made visible at poll k for every k=1..P (seeded sample above a cap in quick), at the n-th Read call for sampled n (the canceller wins while the reader is in I/O), and before the call (cancelled context, expired deadline, simulated context with k=0). A case is distinct by (document, mode, k) and non-trivial when the read was actually interrupted (error returned) or completed after the flip."
}
func (c10) Assumptions() []string {
	return []string{
		"the reader can learn of a cancellation only by polling Err()/Done(); 'cancellation first visible at poll k' therefore enumerates every distinguishable schedule of a concurrent cancel",
		fmt.Sprintf("'promptly' is measured in deterministic work units: at most %d further ReadSeeker calls and %d further polls after the first poll that reported the cancellation, independent of document size; wall-clock time is reported, not judged", B, B),
		"poll order inside pdfcpu follows Go map iteration; every k of the order of the current run is tried, replay addresses a poll by (call site, last seek offset, occurrence)",
	}
}
func (c10) RealVsStub() map[string]string {
	return map[string]string{"pdfcpu reader (ReadWithContext and everything below)": "real, unmodified", "context.Context": "simulated (flips at poll k / I/O call n); real cancelled contexts for the pre-cancelled leg", "io.ReadSeeker": "real bytes, counting wrapper"}
}

// ---- simulated context

type pollSite struct {
	Site string `json:"site"`
	Seek int64  `json:"last_seek"`
	J    int    `json:"occurrence"`
}

type simCtx struct {
	flipAtPoll               int // 0 = never by poll count
	match                    *pollSite
	polls                    int
	cancelled                bool
	done                     chan struct{}
	rs                       *countRS
	pollsAtFlip, readsAtFlip int
	firstSeen                bool // a poll has returned non-nil
	pollsAfter, readsAtSeen  int
	siteCount                map[string]int
	flipSite                 pollSite
	seenAt                   time.Time
	callsNow                 func() int // file leg: number of file-system events so far (instead of rs.calls)
	reader                   uint64     // goroutine of the read: polls by helper goroutines (context.AfterFunc, propagateCancel) are not the reader's polls
	afterCancel              func()     // file leg: lets goroutines that react to the cancellation run before the reader goes on
	reason                   error      // what Err() reports once the context has ended: Canceled, or DeadlineExceeded (its simulated deadline passes at the flip)
}

func newSimCtx() *simCtx {
	return &simCtx{done: make(chan struct{}), siteCount: map[string]int{}, reason: context.Canceled, reader: runtime.VerifGoid()}
}

func (c *simCtx) Deadline() (time.Time, bool) {
	if c.reason == context.DeadlineExceeded {
		return time.Unix(4102444800, 0), true // the simulated clock jumps past it at the flip
	}
	return time.Time{}, false
}
func (c *simCtx) Value(any) any { return nil }

func (c *simCtx) cancel() {
	if !c.cancelled {
		c.cancelled = true
		close(c.done)
		if c.afterCancel != nil {
			c.afterCancel()
		}
	}
}

func (c *simCtx) poll() {
	if runtime.VerifGoid() != c.reader {
		return
	}
	c.polls++
	_, file, line, _ := runtime.Caller(2)
	site := fmt.Sprintf("%s:%d", trimRepo(file), line)
	key := fmt.Sprintf("%s@%d", site, c.rs.lastSeek)
	c.siteCount[key]++
	here := pollSite{Site: site, Seek: c.rs.lastSeek, J: c.siteCount[key]}
	if !c.cancelled {
		if (c.flipAtPoll > 0 && c.polls == c.flipAtPoll) || (c.match != nil && *c.match == here) {
			c.flipSite = here
			c.cancel()
		}
	}
	if c.cancelled {
		if !c.firstSeen {
			c.firstSeen = true
			c.readsAtSeen = c.rs.calls
			if c.callsNow != nil {
				c.readsAtSeen = c.callsNow()
			}
			c.seenAt = time.VerifRealNow()
			if c.flipSite.Site == "" {
				c.flipSite = here
			}
		} else {
			c.pollsAfter++
		}
	}
}

func (c *simCtx) Err() error {
	c.poll()
	if c.cancelled {
		return c.reason
	}
	return nil
}

func (c *simCtx) Done() <-chan struct{} {
	c.poll()
	return c.done
}

func trimRepo(f string) string {
	if i := strings.Index(f, "/pkg/"); i >= 0 {
		return f[i+1:]
	}
	return filepath.Base(f)
}

// ---- counting ReadSeeker

type countRS struct {
	r          *bytes.Reader
	calls      int
	reads      int
	bytes      int64
	lastSeek   int64
	flipAtRead int
	ctx        *simCtx
	// a Read call is addressed by (offset of the last Seek, occurrence of that Seek offset, Reads since):
	// the call number is not stable across runs (objects are dereferenced in map order), the triple is
	seekOcc   map[int64]int
	sinceSeek int
	matchIO   *ioSite
	flipIO    ioSite
	// real-context leg: realCancel is called when the n-th Read is entered
	realCancel  func()
	callsAtReal int
}

type ioSite struct {
	Seek int64 `json:"last_seek"`
	Occ  int   `json:"seek_occurrence"`
	J    int   `json:"reads_since"`
}

func (c *countRS) Read(p []byte) (int, error) {
	c.calls++
	c.reads++
	c.sinceSeek++
	here := ioSite{Seek: c.lastSeek, Occ: c.seekOcc[c.lastSeek], J: c.sinceSeek}
	if (c.flipAtRead > 0 && c.reads == c.flipAtRead) || (c.matchIO != nil && *c.matchIO == here) {
		c.flipIO = here
		if c.realCancel != nil {
			c.realCancel()
			c.callsAtReal = c.calls
		} else {
			c.ctx.cancel() // "another goroutine" cancels while the reader is inside this Read
		}
	}
	if c.callsAtReal > 0 && c.calls > c.callsAtReal && os.Getenv("VERIF_C10_STACK") != "" {
		fmt.Fprintf(os.Stderr, "read %d after cancel:\n%s\n", c.calls-c.callsAtReal, debug.Stack())
	}
	n, err := c.r.Read(p)
	c.bytes += int64(n)
	return n, err
}

func (c *countRS) Seek(off int64, whence int) (int64, error) {
	c.calls++
	n, err := c.r.Seek(off, whence)
	if err == nil {
		c.lastSeek = n
		if c.seekOcc == nil {
			c.seekOcc = map[int64]int{}
		}
		c.seekOcc[n]++
		c.sinceSeek = 0
	}
	return n, err
}

// ---- documents

type docSpec struct {
	Name   string `json:"name"`
	Mutate string `json:"mutate,omitempty"` // "" | "bad-startxref" (forces the xref repair path) | "bad-objoffset" (forces the dereference-time repair)
}

var docCache = map[string][]byte{}

func loadDoc(d docSpec) ([]byte, error) {
	key := d.Name + "|" + d.Mutate
	if b, ok := docCache[key]; ok {
		return b, nil
	}
	var b []byte
	if strings.HasPrefix(d.Name, "gen:") {
		// a document from the harness's own writer (classic xref table), n pages
		n := 0
		fmt.Sscanf(d.Name, "gen:%d", &n)
		var pages []pdfgen.PageSpec
		for i := 0; i < n; i++ {
			pages = append(pages, pdfgen.PageSpec{Marker: fmt.Sprintf("page-%d", i+1)})
		}
		b = pdfgen.Doc(pages, 5, []int{0, 90}, [][4]float64{{0, 0, 595, 842}, {0, 0, 300, 400}})
	} else {
		rb, err := os.ReadFile(filepath.Join("/repo/pkg/testdata", d.Name))
		if err != nil {
			return nil, err
		}
		b = append([]byte(nil), rb...)
	}
	switch d.Mutate {
	case "bad-startxref":
		// point startxref 7 bytes off: the reader has to rebuild the xref table by scanning the file
		i := bytes.LastIndex(b, []byte("startxref"))
		if i < 0 {
			return nil, fmt.Errorf("%s: no startxref", d.Name)
		}
		j := i + len("startxref")
		for j < len(b) && (b[j] == '\r' || b[j] == '\n' || b[j] == ' ') {
			j++
		}
		k := j
		for k < len(b) && b[k] >= '0' && b[k] <= '9' {
			k++
		}
		var off int
		fmt.Sscanf(string(b[j:k]), "%d", &off)
		repl := fmt.Sprintf("%0*d", k-j, off+7)
		copy(b[j:k], repl)
	case "bad-objoffset":
		// one in-use entry of the classic xref table points a few bytes short of its object: the first
		// dereference pass fails and the reader repairs by scanning the file
		if err := corruptOneOffset(b); err != nil {
			return nil, fmt.Errorf("%s: %v", d.Name, err)
		}
	}
	docCache[key] = b
	return b, nil
}

// corruptOneOffset rewrites the offset of an in-use entry in the last classic xref section.
func corruptOneOffset(b []byte) error {
	i := bytes.LastIndex(b, []byte("\nxref"))
	if i < 0 {
		return fmt.Errorf("no classic xref section")
	}
	p := i + len("\nxref")
	var entries []int // byte positions of 20-byte in-use entries
	for p < len(b) {
		for p < len(b) && (b[p] == '\r' || b[p] == '\n' || b[p] == ' ') {
			p++
		}
		if bytes.HasPrefix(b[p:], []byte("trailer")) {
			break
		}
		// either a subsection header "first count" or an entry "oooooooooo ggggg n"
		e := p
		for e < len(b) && b[e] != '\r' && b[e] != '\n' {
			e++
		}
		line := strings.TrimSpace(string(b[p:e]))
		if len(line) == 18 && line[10] == ' ' && (line[17] == 'n' || line[17] == 'f') {
			if line[17] == 'n' {
				entries = append(entries, p)
			}
		}
		p = e
	}
	if len(entries) < 3 {
		return fmt.Errorf("xref section has too few in-use entries")
	}
	at := entries[len(entries)/2]
	var off int
	fmt.Sscanf(string(b[at:at+10]), "%d", &off)
	if off < 8 {
		return fmt.Errorf("offset too small")
	}
	copy(b[at:at+10], fmt.Sprintf("%010d", off-4))
	return nil
}

type readOutcome struct {
	ctx        *model.Context
	err        error
	polls      int
	calls      int
	reads      int
	bytes      int64
	seen       bool
	pollsAfter int
	callsAfter int
	flipSite   pollSite
	flipIO     ioSite
	latency    time.Duration
	panicVal   any
}

func conf() *model.Configuration {
	c := model.NewDefaultConfiguration()
	c.ValidationMode = model.ValidationRelaxed
	return c
}

func reasonOf(name string) error {
	if name == "deadline" {
		return context.DeadlineExceeded
	}
	return context.Canceled
}

func doRead(b []byte, flipAtPoll, flipAtRead int, match *pollSite, reason string) (out readOutcome) {
	return doReadIO(b, flipAtPoll, flipAtRead, match, nil, reason)
}

// mapSalt: every simulated read restarts the runtime's random sequence (map seeds and iteration
// offsets) from it, so the order in which the reader walks its object table is the same in the
// counting run, in every cancelled run and in a replay - and differs between units / seeds.
var mapSalt uint64

func doReadIO(b []byte, flipAtPoll, flipAtRead int, match *pollSite, matchIO *ioSite, reason string) (out readOutcome) {
	runtime.VerifSetMapRand(mapSalt ^ 0xC10C10C10)
	simclock.Install(mapSalt)
	defer simclock.Uninstall()
	sc := newSimCtx()
	sc.reason = reasonOf(reason)
	rs := &countRS{r: bytes.NewReader(b), ctx: sc, flipAtRead: flipAtRead, matchIO: matchIO, seekOcc: map[int64]int{}}
	sc.rs = rs
	sc.flipAtPoll = flipAtPoll
	sc.match = match
	func() {
		defer func() {
			if p := recover(); p != nil {
				out.panicVal = p
			}
		}()
		out.ctx, out.err = pdfcpu.ReadWithContext(sc, rs, conf())
	}()
	end := time.VerifRealNow()
	out.polls, out.calls, out.bytes = sc.polls, rs.calls, rs.bytes
	out.reads = rs.reads
	out.seen = sc.firstSeen
	out.flipSite = sc.flipSite
	out.flipIO = rs.flipIO
	if sc.firstSeen {
		out.pollsAfter = sc.pollsAfter
		out.callsAfter = rs.calls - sc.readsAtSeen
		out.latency = end.Sub(sc.seenAt)
	}
	return out
}

// doReadFile is the file leg: pdfcpu.ReadFileWithContext opens the file itself, the simulated file
// system (package os seam) counts its calls and tracks the handle. After the cancellation has been
// seen at most B further file-system calls may follow (the closing of the file among them), the
// handle must be closed when the call returns, and the directory must be as before.
func doReadFile(b []byte, flipAtPoll int, reason string) (out readOutcome, leaked []string, dirChanged string, err error) {
	dir, err := os.MkdirTemp(engine.ScratchBase(), "c10f-")
	if err != nil {
		return out, nil, "", err
	}
	defer os.RemoveAll(dir)
	path := filepath.Join(dir, "doc.pdf")
	if err := os.WriteFile(path, b, 0644); err != nil {
		return out, nil, "", err
	}
	s0 := simfs.TakeSnap(dir)
	runtime.VerifSetMapRand(mapSalt ^ 0xC10C10C10)
	simclock.Install(mapSalt)
	defer simclock.Uninstall()
	sim := &simfs.Sim{Root: dir}
	sc := newSimCtx()
	sc.reason = reasonOf(reason)
	sc.rs = &countRS{seekOcc: map[int64]int{}}
	sc.flipAtPoll = flipAtPoll
	sc.callsNow = func() int { return len(sim.Events) }
	// whatever the code under test has registered to run on cancellation (context.AfterFunc, a watcher
	// goroutine) gets to run before the reader's next step: the schedule in which such a helper wins
	sc.afterCancel = func() {
		for i := 0; i < 20; i++ {
			runtime.Gosched()
		}
		time.Sleep(2 * time.Millisecond)
	}
	simfs.Activate(sim)
	func() {
		defer func() {
			if p := recover(); p != nil {
				out.panicVal = p
			}
		}()
		out.ctx, out.err = pdfcpu.ReadFileWithContext(sc, path, conf())
	}()
	leaked = simfs.Deactivate()
	out.polls, out.calls = sc.polls, len(sim.Events)
	out.seen = sc.firstSeen
	out.flipSite = sc.flipSite
	if sc.firstSeen {
		out.pollsAfter = sc.pollsAfter
		out.callsAfter = len(sim.Events) - sc.readsAtSeen
	}
	if d := simfs.Diff(s0, simfs.TakeSnap(dir)); len(d) > 0 {
		dirChanged = strings.Join(d, "; ")
	}
	return out, leaked, dirChanged, nil
}

// C10Unit: one document and mode.
type C10Unit struct {
	Doc  docSpec `json:"doc"`
	MaxK int     `json:"max_k"` // cap on enumerated polls (0 = all)
	IO   int     `json:"io_points"`
	Seed int64   `json:"seed"`
}

// C10Replay payload.
type C10Replay struct {
	Doc     docSpec   `json:"doc"`
	Mode    string    `json:"mode"`             // poll | io | pre-cancel | pre-deadline | pre-sim
	Reason  string    `json:"reason,omitempty"` // "" = cancelled, "deadline" = the simulated deadline passes
	K       int       `json:"k_hint,omitempty"`
	Site    *pollSite `json:"poll_site,omitempty"`
	N       int       `json:"io_call,omitempty"`
	IOSite  *ioSite   `json:"io_site,omitempty"`
	MapSalt uint64    `json:"map_salt,omitempty"`
}

var quickDocs = []docSpec{
	{Name: "zineTest.pdf"}, {Name: "Acroforms2.pdf"}, {Name: "Hybrid-PDF.pdf"}, {Name: "Walden.pdf"},
	{Name: "zineTest.pdf", Mutate: "bad-startxref"}, {Name: "annotTest.pdf"},
	{Name: "gen:40", Mutate: "bad-objoffset"}, {Name: "grid_example.pdf", Mutate: "bad-objoffset"},
	{Name: "text_annotations.pdf", Mutate: "bad-objoffset"}, {Name: "Acroforms2.pdf", Mutate: "bad-startxref"}, // long repair scans
}

var thoroughDocs = []docSpec{
	{Name: "bookletTestA6.pdf"}, {Name: "testWithText.pdf"}, {Name: "OptimizeTest.pdf"}, {Name: "T6.pdf"}, {Name: "xdp_2.0.pdf"},
	{Name: "adobe_errata.pdf"}, {Name: "go.pdf"}, {Name: "testImage.pdf"}, {Name: "schmager_plateau10.pdf"}, {Name: "pike-stanford.pdf"},
	{Name: "Walden.pdf", Mutate: "bad-startxref"}, {Name: "5116.DCT_Filter.pdf"},
	{Name: "adobeImplOfPDFSpec.pdf"}, {Name: "golang.pdf"},
	{Name: "gen:40"}, {Name: "gen:120", Mutate: "bad-objoffset"}, {Name: "read.go.pdf", Mutate: "bad-objoffset"},
}

func (c10) Units(tier string, seed int64) ([]core.Unit, error) {
	var units []core.Unit
	rng := rand.New(rand.NewPCG(uint64(seed), 0xC10))
	docs := append([]docSpec{}, quickDocs...)
	maxK, io := 500, 40
	if tier != "quick" {
		docs = append(docs, thoroughDocs...)
		maxK, io = 0, 400
	}
	for _, d := range docs {
		u := C10Unit{Doc: d, MaxK: maxK, IO: io, Seed: int64(rng.Uint64() >> 1)}
		b, _ := json.Marshal(u)
		units = append(units, b)
	}
	// CPU leg: work that neither reads nor polls (see cpu.go)
	lit := "gen:literals:300000"
	if tier != "quick" {
		lit = "gen:literals:600000"
	}
	cb, _ := json.Marshal(C10Unit{Doc: docSpec{Name: lit}, Seed: int64(rng.Uint64() >> 1)})
	units = append(units, cb)
	return units, nil
}

func objCount(ctx *model.Context) int {
	if ctx == nil || ctx.XRefTable == nil {
		return -1
	}
	return len(ctx.XRefTable.Table)
}

// tableDigest lists, per object number, whether the entry is free and which kind of object was
// loaded for it (nil = not loaded). A read that reports success must have built the same table as
// the uncancelled read: an object that was skipped because its parse was interrupted shows here
// although the number of entries is the same.
func tableDigest(ctx *model.Context) []string {
	if ctx == nil || ctx.XRefTable == nil {
		return nil
	}
	nrs := make([]int, 0, len(ctx.XRefTable.Table))
	for nr := range ctx.XRefTable.Table {
		nrs = append(nrs, nr)
	}
	sort.Ints(nrs)
	out := make([]string, 0, len(nrs))
	for _, nr := range nrs {
		e := ctx.XRefTable.Table[nr]
		if e == nil {
			out = append(out, fmt.Sprintf("%d:nil-entry", nr))
			continue
		}
		out = append(out, fmt.Sprintf("%d:free=%v:%T", nr, e.Free, e.Object))
	}
	return out
}

func digestDiff(a, b []string) string {
	if len(a) != len(b) {
		return fmt.Sprintf("%d entries vs %d", len(a), len(b))
	}
	n, first := 0, ""
	for i := range a {
		if a[i] != b[i] {
			if n == 0 {
				first = fmt.Sprintf("got %s, the uncancelled read has %s", a[i], b[i])
			}
			n++
		}
	}
	if n == 0 {
		return ""
	}
	return fmt.Sprintf("%d object(s) differ, first: %s", n, first)
}

// judge applies the oracle to one cancelled read.
func judge(doc docSpec, mode string, k int, full, out readOutcome, rp C10Replay) []core.Violation {
	var vs []core.Violation
	mk := func(class, tail, detail string) {
		b, _ := json.Marshal(rp)
		sig := fmt.Sprintf("%s|%s|%s|%s|%s", doc.Name, doc.Mutate, mode+map[bool]string{true: "-" + rp.Reason, false: ""}[rp.Reason != ""], class, tail)
		d := fmt.Sprintf("document %s%s, cancellation %s (k=%d, io=%d), first seen at poll site %s (last seek %d, occurrence %d)\nresult: err=%v doc=%v; after the cancellation was seen: %d ReadSeeker calls, %d polls (full read: %d calls, %d polls)\n%s",
			doc.Name, map[bool]string{true: " [" + doc.Mutate + "]", false: ""}[doc.Mutate != ""], mode, k, rp.N, out.flipSite.Site, out.flipSite.Seek, out.flipSite.J, out.err, out.ctx != nil, out.callsAfter, out.pollsAfter, full.calls, full.polls, detail)
		vs = append(vs, core.Violation{Property: "C10", Class: class, Signature: sig, Detail: d, Replay: b})
	}
	if out.panicVal != nil {
		mk("panic", "", fmt.Sprintf("panic: %v", out.panicVal))
		return vs
	}
	if out.ctx != nil && out.err != nil {
		mk("document-and-error", "", "a document and an error were returned together")
	}
	if out.err != nil {
		if !errors.Is(out.err, reasonOf(rp.Reason)) {
			if out.seen {
				mk("wrong-error", siteFunc(out.flipSite.Site), fmt.Sprintf("the read was cancelled but the error does not match the context's error (%v)", reasonOf(rp.Reason)))
			} else if full.err == nil {
				mk("spurious-error", "", "the read failed although the cancellation was never observed and the uncancelled read succeeds")
			}
		}
	} else {
		if out.ctx == nil {
			mk("nil-nil", "", "neither a document nor an error")
		} else if full.ctx != nil && (out.ctx.PageCount != full.ctx.PageCount || objCount(out.ctx) != objCount(full.ctx)) {
			mk("incomplete-document", "", fmt.Sprintf("success after cancellation with a different document: pages %d vs %d, objects %d vs %d", out.ctx.PageCount, full.ctx.PageCount, objCount(out.ctx), objCount(full.ctx)))
		} else if full.ctx != nil {
			if d := digestDiff(tableDigest(out.ctx), tableDigest(full.ctx)); d != "" {
				mk("incomplete-document", "", "success after cancellation, but the object table is not the one the uncancelled read builds: "+d)
			}
		}
	}
	if out.seen && (out.callsAfter > B || out.pollsAfter > B) {
		mk("not-prompt", siteFunc(out.flipSite.Site), fmt.Sprintf("the reader kept working after it had seen the cancellation: bound is %d", B))
	}
	return vs
}

func siteFunc(site string) string {
	// file name only: stable under line shifts
	if i := strings.LastIndex(site, ":"); i >= 0 {
		site = site[:i]
	}
	return site
}

func (c10) RunUnit(raw core.Unit, tier string, seed int64) core.UnitResult {
	var u C10Unit
	res := core.UnitResult{FaultFired: map[string]int{}, EventsSeen: map[string]int{}, Probes: map[string]int{}}
	if err := json.Unmarshal(raw, &u); err != nil {
		res.Trouble = err.Error()
		return res
	}
	if strings.HasPrefix(u.Doc.Name, "gen:literals:") {
		n := 0
		fmt.Sscanf(u.Doc.Name, "gen:literals:%d", &n)
		o := runCPU(n)
		res.Evaluations++
		if !o.cancelled {
			res.Trouble = fmt.Sprintf("CPU leg: the read of %s never reached the tail of the large object (err=%v)", u.Doc.Name, o.err)
			return res
		}
		res.FaultFired["cancel-cpu"]++
		res.Nontrivial = append(res.Nontrivial, u.Doc.Name+"|cpu")
		res.Probes["max_cpu_ms_after_cancel_large_object"] = int(o.cpuAfter / time.Millisecond)
		res.Violations = append(res.Violations, judgeCPU(n, o)...)
		res.Samples = append(res.Samples, map[string]any{"document": u.Doc.Name, "cpu_seconds_after_cancel": o.cpuAfter.Seconds(), "wall_seconds": o.wall.Seconds(), "returned_error": fmt.Sprint(o.err)})
		return res
	}
	b, err := loadDoc(u.Doc)
	if err != nil {
		res.Trouble = err.Error()
		return res
	}
	rng := rand.New(rand.NewPCG(uint64(u.Seed), 10))
	mapSalt = uint64(u.Seed)
	full := doRead(b, 0, 0, nil, "")
	res.Evaluations++
	if full.err != nil || full.panicVal != nil {
		res.Trouble = fmt.Sprintf("uncancelled read of %s%s fails: %v %v", u.Doc.Name, u.Doc.Mutate, full.err, full.panicVal)
		return res
	}
	if full.calls < 4*B {
		res.Trouble = fmt.Sprintf("%s: a full read makes only %d ReadSeeker calls; 'bounded' would be trivially true (need >= %d)", u.Doc.Name, full.calls, 4*B)
		return res
	}
	res.EventsSeen["polls_full_read"] += full.polls
	res.EventsSeen["readseeker_calls_full_read"] += full.calls
	if u.Doc.Mutate != "" {
		// the mutation must really send the reader through a repair scan: more work than the intact file
		ob, err := loadDoc(docSpec{Name: u.Doc.Name})
		if err != nil {
			res.Trouble = err.Error()
			return res
		}
		intact := doRead(ob, 0, 0, nil, "")
		if full.polls <= intact.polls && full.bytes <= intact.bytes {
			res.Trouble = fmt.Sprintf("%s [%s]: the mutated file is read with no more work than the intact one (%d/%d polls, %d/%d bytes): no repair path taken", u.Doc.Name, u.Doc.Mutate, full.polls, intact.polls, full.bytes, intact.bytes)
			return res
		}
		res.Probes["repair_path_documents_"+u.Doc.Mutate]++
		res.Probes["repair_path_extra_polls"] += full.polls - intact.polls
	}
	maxAfterCalls, maxAfterPolls := 0, 0
	worst := ""
	var maxLatency time.Duration
	record := func(mode string, k int, out readOutcome, rp C10Replay) {
		res.Evaluations++
		res.SimSteps += out.calls + out.polls
		res.FaultFired["cancel-"+mode+map[bool]string{true: "-" + rp.Reason, false: ""}[rp.Reason != ""]]++
		if out.seen {
			res.Nontrivial = append(res.Nontrivial, fmt.Sprintf("%s|%s|%s|%d", u.Doc.Name, u.Doc.Mutate, mode, k))
			if out.err != nil {
				res.Probes["reads_interrupted"]++
			} else {
				res.Probes["reads_completed_after_cancel"]++
			}
		}
		if out.callsAfter > maxAfterCalls {
			maxAfterCalls = out.callsAfter
		}
		if out.pollsAfter > maxAfterPolls {
			maxAfterPolls = out.pollsAfter
			worst = fmt.Sprintf("%s k=%d first seen at %s (seek %d, occurrence %d): %d polls, %d calls afterwards, err=%v", mode, k, out.flipSite.Site, out.flipSite.Seek, out.flipSite.J, out.pollsAfter, out.callsAfter, out.err)
		}
		if out.latency > maxLatency {
			maxLatency = out.latency
		}
		res.Violations = append(res.Violations, judge(u.Doc, mode, k, full, out, rp)...)
	}
	// pre-cancelled legs
	{
		cctx, cancel := context.WithCancel(context.Background())
		cancel()
		rs := &countRS{r: bytes.NewReader(b)}
		rs.ctx = newSimCtx()
		ctx, err := pdfcpu.ReadWithContext(cctx, rs, conf())
		res.Evaluations++
		res.FaultFired["cancel-pre"]++
		rp := C10Replay{Doc: u.Doc, Mode: "pre-cancel", MapSalt: mapSalt}
		if ctx != nil || err == nil || !errors.Is(err, cctx.Err()) {
			res.Violations = append(res.Violations, preViolation(u.Doc, "pre-cancel", ctx, err, rs.calls, rp))
		}
		dctx, cancel2 := context.WithDeadline(context.Background(), time.Now().Add(-time.Hour))
		rs2 := &countRS{r: bytes.NewReader(b)}
		rs2.ctx = newSimCtx()
		ctx, err = pdfcpu.ReadWithContext(dctx, rs2, conf())
		cancel2()
		res.Evaluations++
		rp = C10Replay{Doc: u.Doc, Mode: "pre-deadline", MapSalt: mapSalt}
		if ctx != nil || err == nil || !errors.Is(err, context.DeadlineExceeded) {
			res.Violations = append(res.Violations, preViolation(u.Doc, "pre-deadline", ctx, err, rs2.calls, rp))
		}
		res.Nontrivial = append(res.Nontrivial, u.Doc.Name+u.Doc.Mutate+"|pre")
	}
	// cancellation visible at poll k
	ks := make([]int, 0, full.polls)
	for k := 1; k <= full.polls; k++ {
		ks = append(ks, k)
	}
	if u.MaxK > 0 && len(ks) > u.MaxK {
		rng.Shuffle(len(ks), func(i, j int) { ks[i], ks[j] = ks[j], ks[i] })
		keep := ks[:u.MaxK]
		// always keep the first 40 polls (xref parsing happens there)
		for k := 1; k <= 40 && k <= full.polls; k++ {
			keep = append(keep, k)
		}
		ks = keep
		sort.Ints(ks)
	}
	for _, reason := range []string{"", "deadline"} {
		for _, k := range ks {
			out := doRead(b, k, 0, nil, reason)
			site := out.flipSite
			record("poll", k, out, C10Replay{Doc: u.Doc, Mode: "poll", K: k, Site: &site, Reason: reason, MapSalt: mapSalt})
		}
	}
	// cancellation while the reader is inside the n-th Read
	for i := 0; i < u.IO; i++ {
		n := 1 + rng.IntN(full.calls)
		reason := []string{"", "deadline"}[i%2]
		out := doRead(b, 0, n, nil, reason)
		at := out.flipIO
		record("io", n, out, C10Replay{Doc: u.Doc, Mode: "io", N: n, IOSite: &at, Reason: reason, MapSalt: mapSalt})
	}
	// real contexts that carry a cancellation cause (context.WithCancelCause): the error must match
	// the context's error (context.Canceled), not the cause
	{
		nc := 12
		if u.MaxK == 0 {
			nc = 100
		}
		for i := 0; i < nc; i++ {
			n := 1 + rng.IntN(full.reads)
			cctx, cancel := context.WithCancelCause(context.Background())
			runtime.VerifSetMapRand(mapSalt ^ 0xC10C10C10)
			simclock.Install(mapSalt)
			rs := &countRS{r: bytes.NewReader(b), ctx: newSimCtx(), flipAtRead: n, seekOcc: map[int64]int{}}
			rs.realCancel = func() { cancel(errors.New("verif: custom cancellation cause")) }
			var out readOutcome
			func() {
				defer func() {
					if p := recover(); p != nil {
						out.panicVal = p
					}
				}()
				out.ctx, out.err = pdfcpu.ReadWithContext(cctx, rs, conf())
			}()
			simclock.Uninstall()
			cancel(nil)
			res.Evaluations++
			res.FaultFired["cancel-io-cause"]++
			rp := C10Replay{Doc: u.Doc, Mode: "io-cause", N: n, MapSalt: mapSalt}
			pb, _ := json.Marshal(rp)
			mkc := func(class, detail string) {
				res.Violations = append(res.Violations, core.Violation{Property: "C10", Class: class, Signature: fmt.Sprintf("%s|%s|io-cause|%s|", u.Doc.Name, u.Doc.Mutate, class), Replay: pb,
					Detail: fmt.Sprintf("document %s, context.WithCancelCause cancelled with a custom cause inside Read call %d: err=%v doc=%v; %s", u.Doc.Name, n, out.err, out.ctx != nil, detail)})
			}
			switch {
			case out.panicVal != nil:
				mkc("panic", fmt.Sprint(out.panicVal))
			case out.err != nil && out.ctx != nil:
				mkc("document-and-error", "a document and an error were returned together")
			case out.err != nil && !errors.Is(out.err, context.Canceled):
				mkc("wrong-error", "the error does not match the context's error (context canceled)")
			case out.err == nil && out.ctx == nil:
				mkc("nil-nil", "neither a document nor an error")
			}
			if rs.callsAtReal > 0 && rs.calls-rs.callsAtReal > B+1 {
				mkc("not-prompt", fmt.Sprintf("%d ReadSeeker calls after the cancellation (bound %d)", rs.calls-rs.callsAtReal, B))
			}
			if out.err != nil {
				res.Nontrivial = append(res.Nontrivial, fmt.Sprintf("%s|%s|io-cause|%d", u.Doc.Name, u.Doc.Mutate, n))
			}
		}
	}
	// file leg (ReadFileWithContext): pre-cancelled and cancellation at sampled polls
	{
		fullF, _, _, err := doReadFile(b, 0, "")
		if err != nil || fullF.err != nil {
			res.Trouble = fmt.Sprintf("file leg, uncancelled read of %s: %v %v", u.Doc.Name, err, fullF.err)
			return res
		}
		nf := 12
		if u.MaxK == 0 {
			nf = 120
		}
		for i := 0; i < nf; i++ {
			k := 1 + rng.IntN(fullF.polls)
			if i == 0 {
				k = 1
			}
			reason := []string{"", "deadline"}[i%2]
			out, leaked, changed, err := doReadFile(b, k, reason)
			if err != nil {
				res.Trouble = err.Error()
				return res
			}
			rp := C10Replay{Doc: u.Doc, Mode: "file", K: k, Reason: reason, MapSalt: mapSalt}
			record("file", k, out, rp)
			mkf := func(class, detail string) {
				pb, _ := json.Marshal(rp)
				res.Violations = append(res.Violations, core.Violation{Property: "C10", Class: class, Signature: fmt.Sprintf("%s|%s|file|%s|", u.Doc.Name, u.Doc.Mutate, class), Replay: pb,
					Detail: fmt.Sprintf("document %s, ReadFileWithContext cancelled at poll %d: err=%v; %s", u.Doc.Name, k, out.err, detail)})
			}
			if len(leaked) > 0 {
				mkf("file-handle-leaked", fmt.Sprintf("the call returned with %v still open", leaked))
			}
			if changed != "" {
				mkf("directory-changed", "the read changed the directory: "+changed)
			}
		}
	}
	res.Probes["max_readseeker_calls_after_cancel_seen"] = maxAfterCalls
	res.Probes["max_polls_after_cancel_seen"] = maxAfterPolls
	res.Probes["max_latency_us_after_cancel_seen"] = int(maxLatency / time.Microsecond)
	res.Samples = append(res.Samples, map[string]any{"document": u.Doc, "polls_in_full_read": full.polls, "readseeker_calls_in_full_read": full.calls, "poll_points_tried": len(ks), "io_points_tried": u.IO, "max_calls_after_cancel_seen": maxAfterCalls, "max_polls_after_cancel_seen": maxAfterPolls, "worst_case": worst})
	return res
}

func preViolation(doc docSpec, mode string, ctx *model.Context, err error, calls int, rp C10Replay) core.Violation {
	b, _ := json.Marshal(rp)
	return core.Violation{Property: "C10", Class: "pre-cancelled-not-honoured", Signature: fmt.Sprintf("%s|%s|%s|pre-cancelled-not-honoured", doc.Name, doc.Mutate, mode),
		Detail: fmt.Sprintf("document %s, %s: got document=%v err=%v after %d ReadSeeker calls; want no document and an error matching the context's", doc.Name, mode, ctx != nil, err, calls), Replay: b}
}

func (c10) Replay(payload json.RawMessage) ([]core.Violation, error) {
	var rp C10Replay
	if err := json.Unmarshal(payload, &rp); err != nil {
		return nil, err
	}
	if rp.Mode == "cpu" {
		n := 0
		fmt.Sscanf(rp.Doc.Name, "gen:literals:%d", &n)
		o := runCPU(n)
		fmt.Printf("CPU leg: cancelled=%v returned=%v err=%v cpu after cancel %.2fs wall %.2fs\n", o.cancelled, o.returned, o.err, o.cpuAfter.Seconds(), o.wall.Seconds())
		if !o.cancelled {
			return nil, fmt.Errorf("the trigger was not reached")
		}
		return judgeCPU(n, o), nil
	}
	b, err := loadDoc(rp.Doc)
	if err != nil {
		return nil, err
	}
	mapSalt = rp.MapSalt
	full := doRead(b, 0, 0, nil, "")
	switch rp.Mode {
	case "pre-cancel", "pre-deadline":
		var cctx context.Context
		var cancel func()
		want := context.Canceled
		if rp.Mode == "pre-cancel" {
			cctx, cancel = context.WithCancel(context.Background())
			cancel()
		} else {
			cctx, cancel = context.WithDeadline(context.Background(), time.Now().Add(-time.Hour))
			defer cancel()
			want = context.DeadlineExceeded
		}
		rs := &countRS{r: bytes.NewReader(b)}
		rs.ctx = newSimCtx()
		ctx, err := pdfcpu.ReadWithContext(cctx, rs, conf())
		if ctx != nil || err == nil || !errors.Is(err, want) {
			return []core.Violation{preViolation(rp.Doc, rp.Mode, ctx, err, rs.calls, rp)}, nil
		}
		return nil, nil
	case "io-cause":
		cctx, cancel := context.WithCancelCause(context.Background())
		defer cancel(nil)
		runtime.VerifSetMapRand(mapSalt ^ 0xC10C10C10)
		simclock.Install(mapSalt)
		defer simclock.Uninstall()
		rs := &countRS{r: bytes.NewReader(b), ctx: newSimCtx(), flipAtRead: rp.N, seekOcc: map[int64]int{}}
		rs.realCancel = func() { cancel(errors.New("verif: custom cancellation cause")) }
		ctx, err := pdfcpu.ReadWithContext(cctx, rs, conf())
		fmt.Printf("io-cause replay: cancelled inside Read %d: err=%v doc=%v, %d calls afterwards\n", rp.N, err, ctx != nil, rs.calls-rs.callsAtReal)
		var vs []core.Violation
		switch {
		case err != nil && ctx != nil:
			vs = append(vs, core.Violation{Property: "C10", Class: "document-and-error", Detail: fmt.Sprint(err)})
		case err != nil && !errors.Is(err, context.Canceled):
			vs = append(vs, core.Violation{Property: "C10", Class: "wrong-error", Detail: fmt.Sprintf("err=%v does not match the context's error", err)})
		case err == nil && ctx == nil:
			vs = append(vs, core.Violation{Property: "C10", Class: "nil-nil"})
		}
		if rs.callsAtReal > 0 && rs.calls-rs.callsAtReal > B+1 {
			vs = append(vs, core.Violation{Property: "C10", Class: "not-prompt", Detail: fmt.Sprintf("%d calls after the cancellation", rs.calls-rs.callsAtReal)})
		}
		return vs, nil
	case "file":
		fullF, _, _, err := doReadFile(b, 0, "")
		if err != nil {
			return nil, err
		}
		out, leaked, changed, err := doReadFile(b, rp.K, rp.Reason)
		if err != nil {
			return nil, err
		}
		vs := judge(rp.Doc, "file", rp.K, fullF, out, rp)
		if len(leaked) > 0 {
			vs = append(vs, core.Violation{Property: "C10", Class: "file-handle-leaked", Detail: fmt.Sprint(leaked)})
		}
		if changed != "" {
			vs = append(vs, core.Violation{Property: "C10", Class: "directory-changed", Detail: changed})
		}
		return vs, nil
	case "io":
		if rp.IOSite == nil {
			out := doRead(b, 0, rp.N, nil, rp.Reason)
			return judge(rp.Doc, "io", rp.N, full, out, rp), nil
		}
		// exact replay first: with the recorded map salt the n-th Read call is the same call as in the run
		// that found the violation
		if rp.N > 0 {
			out := doRead(b, 0, rp.N, nil, rp.Reason)
			if vs := judge(rp.Doc, "io", rp.N, full, out, rp); len(vs) > 0 {
				fmt.Printf("exact replay (Read call %d, map salt %d): err=%v, %d calls and %d polls afterwards\n", rp.N, rp.MapSalt, out.err, out.callsAfter, out.pollsAfter)
				return vs, nil
			}
		}
		// fallback for a tree whose call sequence has shifted: address the Read call by its site
		reached := 0
		for attempt := 0; attempt < 60; attempt++ {
			out := doReadIO(b, 0, 0, nil, rp.IOSite, rp.Reason)
			if out.flipIO != *rp.IOSite {
				continue // this run's dereference order did not pass the Read call
			}
			reached++
			if vs := judge(rp.Doc, "io", rp.N, full, out, rp); len(vs) > 0 {
				fmt.Printf("run %d: cancelled inside Read %+v: err=%v, %d calls and %d polls afterwards\n", attempt+1, out.flipIO, out.err, out.callsAfter, out.pollsAfter)
				return vs, nil
			}
		}
		if reached == 0 {
			return nil, fmt.Errorf("replay diverged: Read call %+v was not reached in 60 runs", *rp.IOSite)
		}
		fmt.Printf("Read call %+v reached in %d of 60 runs, no violation\n", *rp.IOSite, reached)
		return nil, nil
	case "poll":
		if rp.Site == nil {
			return nil, fmt.Errorf("replay file has no poll site")
		}
		// exact replay first: with the recorded map salt poll k is the same poll as in the run that
		// found the violation
		if rp.K > 0 {
			out := doRead(b, rp.K, 0, nil, rp.Reason)
			if vs := judge(rp.Doc, "poll", rp.K, full, out, rp); len(vs) > 0 {
				fmt.Printf("exact replay (poll %d, map salt %d): cancelled at %+v: err=%v, %d calls and %d polls afterwards\n", rp.K, rp.MapSalt, out.flipSite, out.err, out.callsAfter, out.pollsAfter)
				return vs, nil
			}
		}
		// fallback for a tree whose poll sequence has shifted: the site triple
		reached := 0
		for attempt := 0; attempt < 60; attempt++ {
			out := doRead(b, 0, 0, rp.Site, rp.Reason)
			if !out.seen {
				continue
			}
			reached++
			if vs := judge(rp.Doc, "poll", rp.K, full, out, rp); len(vs) > 0 {
				fmt.Printf("run %d: cancelled at %+v: err=%v, %d calls and %d polls afterwards\n", attempt+1, out.flipSite, out.err, out.callsAfter, out.pollsAfter)
				return vs, nil
			}
		}
		if reached == 0 {
			return nil, fmt.Errorf("replay diverged: poll site %+v was not reached in 60 runs", *rp.Site)
		}
		fmt.Printf("poll site %+v reached in %d of 60 runs, no violation\n", *rp.Site, reached)
		return nil, nil
	}
	return nil, fmt.Errorf("unknown mode %q", rp.Mode)
}

func (c10) Minimise(v core.Violation, budget int) json.RawMessage { return nil }

var _ io.Reader = (*countRS)(nil)
