package ctxprops

import (
	"bytes"
	"encoding/json"
	"fmt"
	"io"
	"runtime"
	"syscall"
	"time"

	"github.com/pdfcpu/pdfcpu/pkg/pdfcpu"
	"verif/core"
	"verif/simclock"
)

// The CPU leg (thorough tier). "Promptly" is judged in work units everywhere else: ReadSeeker calls
// and polls after the cancellation was seen. A loop that neither reads nor polls is invisible to
// that measure, and the reader has such loops where a single object is large: the keyword detection
// that decides where an object ends steps over every string literal of the buffered object and is
// quadratic when the object holds hundreds of thousands of them. Here the work after the
// cancellation is measured as CPU time of the reading thread (the goroutine is locked to it, so
// machine load does not count) against a bound that is generous by a factor of about five for the
// unchanged tree and exceeded by a factor of about four when the inner poll is missing.

// cpuBoundFor: 4 s for the 600 000-literal object (the unchanged tree needs about 0.15 s there, a
// reader without the inner poll about 13 s); the rescanning work grows with the square of the size.
func cpuBoundFor(n int) time.Duration {
	f := float64(n) / 600000
	b := time.Duration(4 * f * f * float64(time.Second))
	if b < time.Second {
		b = time.Second
	}
	return b
}

// literalsDoc: one indirect object that is an array of n string literals "(a)" followed by a comment,
// then a minimal catalog/page tree. Returns the file, the offset of the large object and an offset
// near its end.
func literalsDoc(n int) (b []byte, objOff, tailOff int64) {
	var out bytes.Buffer
	out.WriteString("%PDF-1.7\n%\xe2\xe3\xcf\xd3\n")
	offs := map[int]int{}
	obj := func(nr int, body string) {
		offs[nr] = out.Len()
		fmt.Fprintf(&out, "%d 0 obj\n%s\nendobj\n", nr, body)
	}
	obj(1, "<< /Type /Catalog /Pages 2 0 R /VerifLabels 4 0 R >>")
	obj(2, "<< /Type /Pages /Count 1 /Kids [3 0 R] >>")
	obj(3, "<< /Type /Page /Parent 2 0 R /MediaBox [0 0 200 200] >>")
	offs[4] = out.Len()
	out.WriteString("4 0 obj\n[")
	for i := 0; i < n; i++ {
		out.WriteString("(a) ")
	}
	tail := out.Len()
	out.WriteString("] % table of short labels\nendobj\n")
	xref := out.Len()
	fmt.Fprintf(&out, "xref\n0 5\n0000000000 65535 f \n")
	for nr := 1; nr <= 4; nr++ {
		fmt.Fprintf(&out, "%010d 00000 n \n", offs[nr])
	}
	fmt.Fprintf(&out, "trailer\n<< /Size 5 /Root 1 0 R >>\nstartxref\n%d\n%%%%EOF\n", xref)
	return out.Bytes(), int64(offs[4]), int64(tail)
}

func threadCPU() time.Duration {
	const rusageThread = 1 // RUSAGE_THREAD
	var ru syscall.Rusage
	if err := syscall.Getrusage(rusageThread, &ru); err != nil {
		return 0
	}
	return time.Duration(ru.Utime.Nano() + ru.Stime.Nano())
}

type cpuRS struct {
	r                *bytes.Reader
	pos              int64
	objOff, trigger  int64
	armed, cancelled bool
	ctx              *simCtx
	cpuAtCancel      time.Duration
	readsAfter       int
}

func (c *cpuRS) Seek(off int64, whence int) (int64, error) {
	p, err := c.r.Seek(off, whence)
	if err == nil {
		c.pos = p
		if whence == io.SeekStart && off == c.objOff {
			c.armed = true // the reader starts on the large object
		}
	}
	return p, err
}

func (c *cpuRS) Read(p []byte) (int, error) {
	n, err := c.r.Read(p)
	start := c.pos
	c.pos += int64(n)
	if c.cancelled {
		c.readsAfter++
	} else if c.armed && start <= c.trigger && c.trigger < c.pos {
		// the canceller wins while the reader is in the Read that delivers the tail of the object
		c.cancelled = true
		c.ctx.cancel()
		c.cpuAtCancel = threadCPU()
	}
	return n, err
}

// CPURun is the replay payload of the CPU leg.
type CPURun struct {
	Literals int `json:"literals"`
}

type cpuOutcome struct {
	returned  bool
	err       error
	doc       bool
	cpuAfter  time.Duration
	wall      time.Duration
	cancelled bool
}

func runCPU(n int) cpuOutcome {
	b, objOff, tail := literalsDoc(n)
	simclock.Install(uint64(n))
	defer simclock.Uninstall()
	runtime.VerifSetMapRand(uint64(n))
	sc := newSimCtx()
	sc.rs = &countRS{seekOcc: map[int64]int{}}
	rs := &cpuRS{r: bytes.NewReader(b), objOff: objOff, trigger: tail, ctx: sc}
	done := make(chan cpuOutcome, 1)
	start := time.VerifRealNow()
	go func() {
		runtime.LockOSThread()
		defer runtime.UnlockOSThread()
		var o cpuOutcome
		func() {
			defer func() { recover() }()
			ctx, err := pdfcpu.ReadWithContext(sc, rs, conf())
			o.err, o.doc = err, ctx != nil
		}()
		o.returned = true
		o.cancelled = rs.cancelled
		if rs.cancelled {
			o.cpuAfter = threadCPU() - rs.cpuAtCancel
		}
		done <- o
	}()
	select {
	case o := <-done:
		o.wall = time.VerifRealNow().Sub(start)
		return o
	case <-time.After(180 * time.Second):
		return cpuOutcome{wall: 180 * time.Second, cancelled: true, cpuAfter: 180 * time.Second}
	}
}

func judgeCPU(n int, o cpuOutcome) []core.Violation {
	rp, _ := json.Marshal(C10Replay{Mode: "cpu", Doc: docSpec{Name: fmt.Sprintf("gen:literals:%d", n)}})
	if !o.cancelled {
		return nil // the trigger was not reached: the caller reports it as trouble
	}
	if !o.returned || o.cpuAfter > cpuBoundFor(n) {
		return []core.Violation{{Property: "C10", Class: "not-prompt-cpu", Signature: "gen:literals||cpu|not-prompt-cpu|", Replay: rp,
			Detail: fmt.Sprintf("one object of %d string literals: the context was cancelled while the reader pulled in the tail of the object; the read returned=%v (err=%v) after %.1f s of CPU time on the reading thread (%.1f s wall); the bound is %.1f s", n, o.returned, o.err, o.cpuAfter.Seconds(), o.wall.Seconds(), cpuBoundFor(n).Seconds())}}
	}
	return nil
}
