// Package simfs is the file-system side of the simulator. It receives every call that package os
// makes on behalf of anyone in the process (pdfcpu, bufio, io.Copy, encoding/gob, ...) through
// the hooks that the build overlay adds to package os (os.VerifPre / os.VerifPost), numbers the
// calls that touch the sandbox as events, and applies the faults planned for a run: an error
// instead of the call, a short write, a full disk from here on, a panic, or a crash snapshot.
//
// The directory tree is a real one (tmpfs); only the decision "does this call happen" is simulated.
package simfs

import (
	"fmt"
	"os"
	"path/filepath"
	"regexp"
	"runtime"
	"strings"
	"sync"
	"sync/atomic"
	"syscall"
)

// Kind of fault.
const (
	KErr        = "ERR"         // the call is not performed, returns Errno
	KShort      = "SHORTWRITE"  // write: first half really written, then ENOSPC
	KPanic      = "PANIC"       // panic(InjectedPanic) instead of the call
	KPanicAfter = "PANIC_AFTER" // the call is performed, then panic
	KEnospcFrom = "ENOSPC_FROM" // from this event on: every create/write/mkdir fails with ENOSPC
	KShortRead  = "SHORTREAD"   // buggify: read returns fewer bytes (legal)
	KKill       = "KILL"        // SIGKILL self before the call (subprocess legs only)
	KKillAfter  = "KILL_AFTER"  // SIGKILL self after the call
)

// Addr identifies an event independently of global ordering of independent outputs:
// (kind, normalised sandbox-relative path, occurrence number of that pair, 1-based).
type Addr struct {
	Op   string `json:"op"`
	Path string `json:"path"`
	Occ  int    `json:"occ"`
}

func (a Addr) String() string { return fmt.Sprintf("%s(%s)#%d", a.Op, a.Path, a.Occ) }

// Fault planned for a run.
type Fault struct {
	Addr  Addr   `json:"addr"`
	Kind  string `json:"kind"`
	Errno int    `json:"errno,omitempty"`
	Seq   int    `json:"seq_hint,omitempty"` // global sequence number it had when found (hint only)
}

func (f Fault) String() string {
	if f.Kind == KErr {
		return fmt.Sprintf("%s@%s errno=%s", f.Kind, f.Addr, syscall.Errno(f.Errno).Error())
	}
	return fmt.Sprintf("%s@%s", f.Kind, f.Addr)
}

// Event is one intercepted call on a sandbox path.
type Event struct {
	Seq    int    `json:"seq"`
	Op     string `json:"op"`
	Path   string `json:"path"`            // normalised, sandbox-relative
	Path2  string `json:"path2,omitempty"` // rename/link target
	Raw    string `json:"-"`               // actual absolute path
	Raw2   string `json:"-"`
	Flag   int    `json:"flag,omitempty"`
	Perm   uint32 `json:"perm,omitempty"`
	N      int    `json:"n,omitempty"`
	Occ    int    `json:"occ"`
	Err    string `json:"err,omitempty"`
	Fault  string `json:"fault,omitempty"`
	FileID int    `json:"fid,omitempty"`
}

func (e Event) Addr() Addr { return Addr{e.Op, e.Path, e.Occ} }

func (e Event) String() string {
	s := fmt.Sprintf("%3d %s %s", e.Seq, e.Op, e.Path)
	if e.Path2 != "" {
		s += " -> " + e.Path2
	}
	if e.N != 0 {
		s += fmt.Sprintf(" n=%d", e.N)
	}
	if e.Fault != "" {
		s += " [" + e.Fault + "]"
	}
	if e.Err != "" {
		s += " => " + e.Err
	}
	return s
}

// InjectedPanic is the value a PANIC fault panics with. It is deliberately not pdfcpu's
// fault.Panic, i.e. it is the kind of panic fault.Catch re-panics.
type InjectedPanic struct {
	Seq  int
	Addr Addr
}

func (p InjectedPanic) String() string { return fmt.Sprintf("simfs: injected panic at %s", p.Addr) }

// Sim is one simulated run's file-system state.
type Sim struct {
	Root   string // absolute sandbox root, no trailing slash
	Faults []Fault

	// AfterEvent, when set, is called after every event (and once with nil before the first one,
	// by the caller). Calls made from inside it are not intercepted.
	AfterEvent func(ev *Event)
	// BeforeEvent is called before the call is performed (after the fault decision).
	BeforeEvent func(ev *Event)
	// Decide, when set, is asked at every event whether to inject a fault there (history engines
	// address faults by "the n-th mutating event of this operation" instead of a recorded address).
	Decide func(ev *Event) *Fault
	// KeepData makes write events keep a copy of their payload in WriteData (C07).
	KeepData  bool
	WriteData map[int][]byte

	Events []Event
	Fired  []Fault
	// OutOfScope counts planned panics that were not raised because the site is copy plumbing.
	OutOfScope int

	mu       sync.Mutex
	occ      map[string]int
	tracked  map[*os.File]*fileState
	nextFID  int
	suppress atomic.Int32
	nested   int
	enospc   bool
	cwd      string
	// ShortReadEvery > 0: buggify — every n-th read event is capped to 1..half of the request.
	ShortReadEvery int
	reads          int
}

type fileState struct {
	abs   string
	isDir bool
	id    int
	stack []string // functions of the module under test on the stack when the file was opened, outermost first
}

// ModulePrefix selects the frames that count as "code of the operation".
var ModulePrefix = "github.com/pdfcpu/pdfcpu/"

// moduleStack returns the module-under-test functions on the current stack, outermost first.
func moduleStack() []string {
	pc := make([]uintptr, 96)
	n := runtime.Callers(0, pc)
	frames := runtime.CallersFrames(pc[:n])
	var out []string
	for {
		f, more := frames.Next()
		if strings.HasPrefix(f.Function, ModulePrefix) {
			out = append(out, f.Function)
		}
		if !more {
			break
		}
	}
	for i, j := 0, len(out)-1; i < j; i, j = i+1, j-1 {
		out[i], out[j] = out[j], out[i]
	}
	return out
}

// panicInScope decides whether a panic injected at a data event of file st models a panic raised
// inside the operation's own processing code. The event is issued, through the standard library,
// by the innermost module frame on the stack. If that frame is also on the stack that opened the
// file, then between opening and finishing the file no code of the module runs below it — the
// call sits in pure copy plumbing (io.Copy of an in-memory buffer) and a panic there could only
// come from inside the kernel call, which is not a fault the property talks about.
func panicInScope(st *fileState, now []string) bool {
	if st == nil || len(st.stack) == 0 {
		return true
	}
	l := 0
	for l < len(st.stack) && l < len(now) && st.stack[l] == now[l] {
		l++
	}
	return len(now) > l
}

var (
	activeMu sync.Mutex
	active   *Sim
)

// Activate installs s as the process-wide simulation. Exactly one can be active.
func Activate(s *Sim) {
	activeMu.Lock()
	defer activeMu.Unlock()
	if active != nil {
		panic("simfs: a simulation is already active")
	}
	s.occ = map[string]int{}
	s.tracked = map[*os.File]*fileState{}
	if s.KeepData {
		s.WriteData = map[int][]byte{}
	}
	s.cwd, _ = os.Getwd()
	active = s
	os.VerifPre = pre
	os.VerifPost = post
}

// Deactivate removes the active simulation; files still tracked are reported (leaked handles).
func Deactivate() (leaked []string) {
	activeMu.Lock()
	defer activeMu.Unlock()
	os.VerifPre = nil
	os.VerifPost = nil
	if active != nil {
		for _, st := range active.tracked {
			leaked = append(leaked, st.abs)
		}
	}
	active = nil
	return leaked
}

// SetCwd tells the simulator the process working directory changed (harness-driven chdir).
func (s *Sim) SetCwd(dir string) { s.cwd = dir }

// Suppressed runs fn with interception off (harness's own file-system work).
func (s *Sim) Suppressed(fn func()) {
	s.suppress.Add(1)
	defer s.suppress.Add(-1)
	fn()
}

func isDirRaw(abs string) bool {
	var st syscall.Stat_t
	if err := syscall.Stat(abs, &st); err != nil {
		return false
	}
	return st.Mode&syscall.S_IFMT == syscall.S_IFDIR
}

func (s *Sim) abs(p string) string {
	if p == "" {
		return ""
	}
	if !filepath.IsAbs(p) {
		p = filepath.Join(s.cwd, p)
	}
	return filepath.Clean(p)
}

func (s *Sim) inside(abs string) bool {
	return abs == s.Root || strings.HasPrefix(abs, s.Root+"/")
}

var (
	reAlnum      = regexp.MustCompile(`^[0-9A-Za-z]+$`)
	reAllDigits  = regexp.MustCompile(`^[0-9]+$`)
	reDigitsTail = regexp.MustCompile(`^(.*-)[0-9]{6,}(\.[A-Za-z0-9]+)?$`)
)

// NormBase replaces the random parts of a staging/temporary base name with '*'. Hidden names may
// carry several of them (a staging file of a staging file: ".a.p7c.stage-123.tmp-456").
func NormBase(b string) string {
	if strings.HasPrefix(b, ".") {
		segs := strings.Split(b, ".")
		for i, sg := range segs {
			j := strings.LastIndex(sg, "-")
			if j < 0 || j == len(sg)-1 {
				continue
			}
			tail := sg[j+1:]
			if !reAlnum.MatchString(tail) {
				continue
			}
			if len(tail) >= 8 || reAllDigits.MatchString(tail) {
				segs[i] = sg[:j+1] + "*"
			}
		}
		return strings.Join(segs, ".")
	}
	if m := reDigitsTail.FindStringSubmatch(b); m != nil { // os.CreateTemp("", "pdfcpu-stdin-*.pdf")
		return m[1] + "*" + m[2]
	}
	return b
}

// Rel returns the normalised sandbox-relative form of an absolute path.
func (s *Sim) Rel(abs string) string {
	r := strings.TrimPrefix(abs, s.Root)
	r = strings.TrimPrefix(r, "/")
	if r == "" {
		return "."
	}
	parts := strings.Split(r, "/")
	for i := range parts {
		parts[i] = NormBase(parts[i])
	}
	return strings.Join(parts, "/")
}

func pre(ev *os.VerifEvent) os.VerifAction {
	s := active
	if s == nil {
		return os.VerifAction{}
	}
	return s.pre(ev)
}

func post(ev *os.VerifEvent) {
	s := active
	if s == nil {
		return
	}
	s.post(ev)
}

func isWriteOpen(flag int) bool {
	return flag&(os.O_WRONLY|os.O_RDWR) != 0
}

func (s *Sim) pre(ov *os.VerifEvent) (act os.VerifAction) {
	if s.suppress.Load() > 0 {
		return
	}
	s.mu.Lock()
	if s.nested > 0 {
		s.mu.Unlock()
		return
	}
	var abs, abs2 string
	var st *fileState
	if ov.File != nil {
		st = s.tracked[ov.File]
		if st == nil {
			s.mu.Unlock()
			return
		}
		abs = st.abs
	} else {
		abs = s.abs(ov.Path)
		abs2 = s.abs(ov.Path2)
		in1, in2 := s.inside(abs), abs2 != "" && s.inside(abs2)
		if ov.Op == "symlink" || ov.Op == "link" {
			in1 = in2 || in1
		}
		if !in1 && !in2 {
			s.mu.Unlock()
			return
		}
	}
	op := ov.Op
	switch op {
	case "open":
		switch {
		case ov.Flag&os.O_CREATE != 0 && ov.Flag&os.O_EXCL != 0:
			op = "openExcl"
		case ov.Flag&os.O_CREATE != 0:
			op = "create"
		case ov.Flag&os.O_TRUNC != 0:
			op = "openTrunc"
		case isWriteOpen(ov.Flag):
			op = "openW"
		default:
			if isDirRaw(abs) {
				op = "opendir"
			}
		}
	case "sync":
		if st != nil && st.isDir {
			op = "syncdir"
		}
	case "close":
		if st != nil && st.isDir {
			op = "closedir"
		}
	}
	e := Event{Seq: len(s.Events) + 1, Op: op, Raw: abs, Raw2: abs2, Flag: ov.Flag, Perm: uint32(ov.Perm), N: ov.N}
	if op == "symlink" {
		// Path is the link *content* (not resolved), Path2 the new link.
		e.Path = ov.Path
		e.Path2 = s.Rel(abs2)
	} else {
		e.Path = s.Rel(abs)
		if abs2 != "" {
			e.Path2 = s.Rel(abs2)
		}
	}
	if st != nil {
		e.FileID = st.id
	}
	if op == "read" || op == "pread" {
		// reads are addressed by file offset: the order in which pdfcpu dereferences objects follows Go
		// map iteration and differs from run to run, the set of (offset, n-th read at that offset) does not
		e.Path = fmt.Sprintf("%s@%d", e.Path, ov.Off)
	}
	key := op + "\x00" + e.Path
	s.occ[key]++
	e.Occ = s.occ[key]
	ov.Tag = e.Seq

	// fault decision
	var panicNow bool
	var killNow bool
	var matched []Fault
	for _, f := range s.Faults {
		if f.Addr.Op == op && f.Addr.Path == e.Path && f.Addr.Occ == e.Occ {
			matched = append(matched, f)
		}
	}
	if s.Decide != nil {
		if f := s.Decide(&e); f != nil {
			f.Addr = e.Addr()
			f.Seq = e.Seq
			matched = append(matched, *f)
			if f.Kind == KPanicAfter || f.Kind == KKillAfter {
				s.Faults = append(s.Faults, *f) // post() looks it up by address
			}
		}
	}
	for _, f := range matched {
		switch f.Kind {
		case KErr:
			act.Err = syscall.Errno(f.Errno)
			e.Fault = f.Kind
		case KShort:
			act.Err = syscall.ENOSPC
			act.Limit, act.HasLimit = ov.N/2, true
			e.Fault = f.Kind
		case KEnospcFrom:
			s.enospc = true
			e.Fault = f.Kind
		case KPanic:
			if !panicInScope(st, moduleStack()) {
				s.OutOfScope++
				continue
			}
			panicNow = true
			e.Fault = f.Kind
		case KKill:
			killNow = true
			e.Fault = f.Kind
		case KPanicAfter, KKillAfter:
			e.Fault = f.Kind
			continue // handled in post; recorded as fired there
		case KShortRead:
			if ov.N > 1 {
				act.Limit, act.HasLimit = (ov.N+1)/2, true
			}
			e.Fault = f.Kind
		}
		s.Fired = append(s.Fired, f)
	}
	if s.enospc && act.Err == nil {
		switch op {
		case "openExcl", "create", "write", "pwrite", "mkdir", "symlink", "link":
			act.Err = syscall.ENOSPC
			if e.Fault == "" {
				e.Fault = "enospc"
			}
		}
	}
	if s.ShortReadEvery > 0 && op == "read" && e.Fault == "" {
		s.reads++
		if s.reads%s.ShortReadEvery == 0 && ov.N > 1 {
			act.Limit, act.HasLimit = 1+(s.reads*7)%(ov.N/2+1), true
			e.Fault = "shortread"
		}
	}
	if s.KeepData && (op == "write" || op == "pwrite") {
		s.WriteData[e.Seq] = append([]byte(nil), ov.Data...)
	}
	s.Events = append(s.Events, e)
	if (op == "removeall" || op == "rename") && act.Err == nil && !panicNow && !killNow {
		s.nested++
	}
	cb := s.BeforeEvent
	s.mu.Unlock()
	if cb != nil {
		s.Suppressed(func() { cb(&e) })
	}
	if killNow {
		syscall.Kill(syscall.Getpid(), syscall.SIGKILL)
		select {}
	}
	if panicNow {
		// the event is over as far as the simulator is concerned
		if s.AfterEvent != nil {
			s.Suppressed(func() { s.AfterEvent(&e) })
		}
		panic(InjectedPanic{Seq: e.Seq, Addr: e.Addr()})
	}
	return act
}

func (s *Sim) post(ov *os.VerifEvent) {
	seq, ok := ov.Tag.(int)
	if !ok {
		return
	}
	s.mu.Lock()
	e := &s.Events[seq-1]
	if (e.Op == "removeall" || e.Op == "rename") && s.nested > 0 {
		s.nested--
	}
	if ov.RErr != nil {
		e.Err = errString(ov.RErr)
	}
	if ov.RN != 0 {
		e.N = ov.RN
	}
	switch ov.Op {
	case "open":
		if ov.RErr == nil && ov.RFile != nil {
			s.nextFID++
			st := &fileState{abs: e.Raw, id: s.nextFID, stack: moduleStack()}
			st.isDir = isDirRaw(e.Raw)
			s.tracked[ov.RFile] = st
			e.FileID = st.id
		}
	case "close":
		delete(s.tracked, ov.File)
	}
	var after string
	for _, f := range s.Faults {
		if (f.Kind == KPanicAfter || f.Kind == KKillAfter) && f.Addr.Op == e.Op && f.Addr.Path == e.Path && f.Addr.Occ == e.Occ {
			if f.Kind == KPanicAfter && ov.File != nil && !panicInScope(s.tracked[ov.File], moduleStack()) {
				s.OutOfScope++
				continue
			}
			after = f.Kind
			s.Fired = append(s.Fired, f)
		}
	}
	ecopy := *e
	cb := s.AfterEvent
	s.mu.Unlock()
	if cb != nil {
		s.Suppressed(func() { cb(&ecopy) })
	}
	switch after {
	case KKillAfter:
		syscall.Kill(syscall.Getpid(), syscall.SIGKILL)
		select {}
	case KPanicAfter:
		panic(InjectedPanic{Seq: ecopy.Seq, Addr: ecopy.Addr()})
	}
}

func errString(err error) string {
	var en syscall.Errno
	if pe, ok := err.(*os.PathError); ok {
		if x, ok := pe.Err.(syscall.Errno); ok {
			en = x
			return errnoName(en)
		}
	}
	if le, ok := err.(*os.LinkError); ok {
		if x, ok := le.Err.(syscall.Errno); ok {
			return errnoName(x)
		}
	}
	s := err.Error()
	if len(s) > 80 {
		s = s[:80]
	}
	return s
}

func errnoName(e syscall.Errno) string {
	switch e {
	case syscall.ENOENT:
		return "ENOENT"
	case syscall.EEXIST:
		return "EEXIST"
	case syscall.EACCES:
		return "EACCES"
	case syscall.EIO:
		return "EIO"
	case syscall.ENOSPC:
		return "ENOSPC"
	case syscall.EPERM:
		return "EPERM"
	case syscall.EXDEV:
		return "EXDEV"
	case syscall.EMFILE:
		return "EMFILE"
	case syscall.EROFS:
		return "EROFS"
	case syscall.EBUSY:
		return "EBUSY"
	case syscall.ENOTEMPTY:
		return "ENOTEMPTY"
	case syscall.EISDIR:
		return "EISDIR"
	case syscall.ENOTDIR:
		return "ENOTDIR"
	}
	return fmt.Sprintf("errno%d", int(e))
}

// ErrnosFor lists the errno values injected for an event kind (first = the default one).
// ErrnoAt picks one errno of the kind's list by an index (the event's sequence number): where only
// one errno per event is tried, the whole list still gets used across the events and configurations
// (a fallback that is taken for EACCES only must not hide behind "the first errno is ENOSPC").
func ErrnoAt(op string, i int) syscall.Errno {
	l := ErrnosFor(op)
	if i < 0 {
		i = -i
	}
	return l[i%len(l)]
}

func ErrnosFor(op string) []syscall.Errno {
	switch op {
	case "open", "opendir":
		return []syscall.Errno{syscall.EACCES, syscall.EMFILE, syscall.EIO}
	case "openExcl", "create", "openW", "openTrunc":
		return []syscall.Errno{syscall.ENOSPC, syscall.EACCES, syscall.EROFS, syscall.EPERM, syscall.ENAMETOOLONG}
	case "write", "pwrite":
		return []syscall.Errno{syscall.EIO, syscall.ENOSPC}
	case "read", "pread":
		return []syscall.Errno{syscall.EIO}
	case "sync", "syncdir":
		return []syscall.Errno{syscall.EIO}
	case "close", "closedir":
		return []syscall.Errno{syscall.EIO}
	case "chmod", "fchmod", "chtimes":
		return []syscall.Errno{syscall.EPERM}
	case "rename":
		return []syscall.Errno{syscall.EXDEV, syscall.EACCES}
	case "remove", "removeall":
		return []syscall.Errno{syscall.EACCES, syscall.EBUSY}
	case "stat", "lstat", "fstat":
		return []syscall.Errno{syscall.EIO, syscall.EACCES}
	case "mkdir":
		return []syscall.Errno{syscall.EACCES, syscall.ENOSPC}
	case "readdir":
		return []syscall.Errno{syscall.EIO}
	case "truncate", "ftruncate":
		return []syscall.Errno{syscall.EIO}
	case "link", "symlink":
		return []syscall.Errno{syscall.EPERM}
	}
	return []syscall.Errno{syscall.EIO}
}
