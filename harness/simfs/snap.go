package simfs

import (
	"crypto/sha256"
	"encoding/hex"
	"fmt"
	"io/fs"
	"os"
	"path/filepath"
	"sort"
	"strings"
	"syscall"
)

// Entry is the observable state of one path in the sandbox.
type Entry struct {
	Type   string `json:"type"` // file dir symlink other
	Perm   uint32 `json:"perm"`
	Size   int64  `json:"size,omitempty"`
	Sum    string `json:"sum,omitempty"`
	Target string `json:"target,omitempty"`
	Ino    uint64 `json:"-"`
}

func (e Entry) String() string {
	switch e.Type {
	case "file":
		return fmt.Sprintf("file %04o %dB %s", e.Perm, e.Size, short(e.Sum))
	case "symlink":
		return "symlink -> " + e.Target
	}
	return fmt.Sprintf("%s %04o", e.Type, e.Perm)
}

func short(s string) string {
	if len(s) > 12 {
		return s[:12]
	}
	return s
}

// Snap maps sandbox-relative (not normalised) paths to entries.
type Snap map[string]Entry

// TakeSnap walks root with raw calls. It must be called with interception suppressed or inactive.
func TakeSnap(root string) Snap {
	snap := Snap{}
	filepath.WalkDir(root, func(p string, d fs.DirEntry, err error) error {
		if err != nil {
			return nil
		}
		rel, _ := filepath.Rel(root, p)
		if rel == "." {
			return nil
		}
		fi, err := os.Lstat(p)
		if err != nil {
			return nil
		}
		e := Entry{Perm: uint32(fi.Mode().Perm())}
		if st, ok := fi.Sys().(*syscall.Stat_t); ok {
			e.Ino = st.Ino
		}
		switch {
		case fi.Mode().IsRegular():
			e.Type = "file"
			e.Size = fi.Size()
			b, err := os.ReadFile(p)
			if err != nil {
				e.Sum = "unreadable:" + err.Error()
			} else {
				h := sha256.Sum256(b)
				e.Sum = hex.EncodeToString(h[:])
			}
		case fi.IsDir():
			e.Type = "dir"
		case fi.Mode()&os.ModeSymlink != 0:
			e.Type = "symlink"
			e.Target, _ = os.Readlink(p)
		default:
			e.Type = "other"
		}
		snap[rel] = e
		return nil
	})
	return snap
}

// Diff describes how b differs from a, one line per path.
func Diff(a, b Snap) []string {
	var out []string
	keys := map[string]bool{}
	for k := range a {
		keys[k] = true
	}
	for k := range b {
		keys[k] = true
	}
	ks := make([]string, 0, len(keys))
	for k := range keys {
		ks = append(ks, k)
	}
	sort.Strings(ks)
	for _, k := range ks {
		ea, ina := a[k]
		eb, inb := b[k]
		switch {
		case ina && !inb:
			out = append(out, fmt.Sprintf("missing %s (was %s)", k, ea))
		case !ina && inb:
			out = append(out, fmt.Sprintf("new %s (%s)", k, eb))
		case !sameEntry(ea, eb):
			out = append(out, fmt.Sprintf("changed %s: %s -> %s", k, ea, eb))
		}
	}
	return out
}

func sameEntry(a, b Entry) bool {
	return a.Type == b.Type && a.Perm == b.Perm && a.Size == b.Size && a.Sum == b.Sum && a.Target == b.Target
}

// SameEntry reports equality of type, mode and bytes.
func SameEntry(a, b Entry) bool { return sameEntry(a, b) }

// IsHidden reports whether the base name of rel starts with a dot.
func IsHidden(rel string) bool {
	return strings.HasPrefix(filepath.Base(rel), ".")
}

// HiddenAncestor reports whether any component of rel starts with a dot.
func HiddenAncestor(rel string) bool {
	for _, c := range strings.Split(rel, "/") {
		if strings.HasPrefix(c, ".") {
			return true
		}
	}
	return false
}

// Change is one structured difference between two snapshots.
type Change struct {
	Path string
	Kind string // new missing changed
	Old  Entry
	New  Entry
}

func (c Change) String() string {
	switch c.Kind {
	case "new":
		return fmt.Sprintf("new %s (%s)", c.Path, c.New)
	case "missing":
		return fmt.Sprintf("missing %s (was %s)", c.Path, c.Old)
	}
	return fmt.Sprintf("changed %s: %s -> %s", c.Path, c.Old, c.New)
}

// Changes lists how b differs from a, sorted by path.
func Changes(a, b Snap) []Change {
	var out []Change
	for k, ea := range a {
		eb, ok := b[k]
		switch {
		case !ok:
			out = append(out, Change{k, "missing", ea, Entry{}})
		case !sameEntry(ea, eb):
			out = append(out, Change{k, "changed", ea, eb})
		}
	}
	for k, eb := range b {
		if _, ok := a[k]; !ok {
			out = append(out, Change{k, "new", Entry{}, eb})
		}
	}
	sort.Slice(out, func(i, j int) bool { return out[i].Path < out[j].Path })
	return out
}
