// Package concprops decides C40. One "schedule" is one child process (built with the race detector
// and the cooperative scheduler hooks): 2-32 caller tasks run real pdfcpu API calls on independent
// inputs; which task runs after each lock operation and file-system call is decided by the seed.
package concprops

import (
	"bufio"
	"bytes"
	"crypto/sha256"
	"encoding/gob"
	"encoding/hex"
	"encoding/json"
	"fmt"
	"io"
	"math/rand/v2"
	"os"
	"os/exec"
	"path/filepath"
	"regexp"
	"runtime"
	"sort"
	"strings"
	"time"

	"github.com/anishathalye/porcupine"
	"github.com/pdfcpu/pdfcpu/pkg/api"
	"github.com/pdfcpu/pdfcpu/pkg/font"
	"github.com/pdfcpu/pdfcpu/pkg/pdfcpu/model"
	"github.com/pdfcpu/pdfcpu/pkg/pdfcpu/types"
	"verif/core"
	"verif/gen"
	"verif/pdfobs"
	"verif/simclock"
	"verif/simsched"
)

// TaskSpec describes one caller task.
type TaskSpec struct {
	Kind string   `json:"kind"`
	Doc  string   `json:"doc,omitempty"`
	Sets []string `json:"sets,omitempty"` // installer: successive registry contents ("AB", "aBC", ...; Z is always present; a lower-case letter is the OLDER revision of that font: same name, different font program)
	Args []string `json:"args,omitempty"` // lookup: names to look up; "read:<name>" reads the installed font program (font.Read)
}

// RunSpec is everything a child needs: one integer decided all of it.
type RunSpec struct {
	Seed           uint64     `json:"seed"`
	Tasks          []TaskSpec `json:"tasks"`
	Decisions      []uint32   `json:"decisions"`
	SwitchPermille int        `json:"switch_permille"`
	PCTDepth       int        `json:"pct_depth,omitempty"`   // > 0: PCT strategy with this depth instead of a coin per scheduling point
	PCTHorizon     int        `json:"pct_horizon,omitempty"` // priority change points fall among the first PCTHorizon scheduling points
	Preload        bool       `json:"preload"`               // call LoadUserFonts before the tasks start
	Solo           bool       `json:"solo"`                  // no interleaving: tasks run one after the other
}

// HistEvent is one font-registry operation.
type HistEvent struct {
	Task   int    `json:"task"`
	Op     string `json:"op"` // reload isuser names | read (font.Read of Arg) | disk (the installer published revision/absence of a font file: Arg = "<name>=<rev|absent>")
	Arg    string `json:"arg,omitempty"`
	Result string `json:"result"`
	Call   int    `json:"call"`
	Ret    int    `json:"ret"`
}

// RunResult is printed by the child as one JSON line.
type RunResult struct {
	Results     []string        `json:"results"` // per task: normalised result or "ERR: ..."
	History     []HistEvent     `json:"history"`
	Steps       int             `json:"steps"`
	Switches    int             `json:"switches"`
	Deadlock    string          `json:"deadlock,omitempty"`
	Panics      map[int]string  `json:"panics,omitempty"`
	TraceSum    string          `json:"trace_sum"`
	StatePoints int             `json:"state_points"` // scheduling points inside the module (accesses to mutated package state)
	Trace       []simsched.Step `json:"trace,omitempty"`
}

var corpus = []string{"test.pdf", "zineTest.pdf", "testRot.pdf", "bookletTestA6.pdf"}

const stableFont = 'Z' // installed in every registry state

func fontName(c byte) string { return gen.FontName(c) }

// ChildMain runs a batch of schedules in one process: verifsim-race c40run <specs.json>.
// Only the first schedule of a batch can exercise the lazy first font load (package state).
func ChildMain(specFile string) int {
	b, err := os.ReadFile(specFile)
	if err != nil {
		fmt.Fprintln(os.Stderr, err)
		return 2
	}
	var batch Batch
	if err := json.Unmarshal(b, &batch); err != nil {
		fmt.Fprintln(os.Stderr, err)
		return 2
	}
	api.DisableConfigDir()
	for i, spec := range batch.Specs {
		fmt.Fprintf(os.Stderr, "C40SCHEDULE %d begin\n", i)
		res, code := runSchedule(spec, batch.Pool, i == 0)
		if code != 0 {
			return code
		}
		out, _ := json.Marshal(res)
		fmt.Printf("C40RESULT %d %s\n", i, out)
		if res.Deadlock != "" {
			break // parked tasks may hold locks: the process is not reusable
		}
	}
	fmt.Fprintf(os.Stderr, "C40SCHEDULE %d begin\n", len(batch.Specs))
	return 0
}

// Batch is what a child process gets.
type Batch struct {
	Pool  string    `json:"pool"` // directory with the installed representations of fonts A..D and Z
	Specs []RunSpec `json:"specs"`
}

func runSchedule(spec RunSpec, pool string, first bool) (*RunResult, int) {
	runtime.VerifSetMapRand(spec.Seed) // map seeds and walk orders are part of the schedule
	simclock.Install(spec.Seed)        // and so is the time the tasks read
	defer simclock.Uninstall()
	work, err := os.MkdirTemp(os.Getenv("VERIF_SCRATCH"), "c40-")
	if err != nil {
		fmt.Fprintln(os.Stderr, err)
		return nil, 2
	}
	defer os.RemoveAll(work)
	fontDir := filepath.Join(work, "fonts")
	os.Mkdir(fontDir, 0755)
	copyGob := func(c byte) {
		b, _ := os.ReadFile(filepath.Join(pool, fontName(c)+".gob"))
		os.WriteFile(filepath.Join(fontDir, fontName(c)+".gob"), b, 0644)
	}
	// which revision of each font file is on disk ("new", "old"; absent = not in the map)
	onDisk := map[string]string{fontName('A') + ".gob": "new", fontName('B') + ".gob": "new", fontName(stableFont) + ".gob": "new"}
	poolFile := func(nm, rev string) string {
		if rev == "old" {
			return filepath.Join(pool, "old", nm)
		}
		return filepath.Join(pool, nm)
	}
	for _, c := range []byte{'A', 'B', stableFont} { // S0 = {A, B, Z}
		copyGob(c)
	}
	font.UserFontDir = fontDir
	if spec.Preload || !first {
		// (re)load S0; in a reused process this also resets the registry of the previous schedule
		if err := font.ReloadUserFonts(); err != nil {
			fmt.Fprintln(os.Stderr, "setup:", err)
			return nil, 2
		}
	}
	docs := map[string][]byte{}
	for _, d := range corpus {
		docs[d], _ = os.ReadFile(filepath.Join("/repo/pkg/testdata", d))
	}
	formPDF, _ := os.ReadFile("/repo/pkg/samples/form/demoSinglePage/english.pdf")
	formJSON, _ := os.ReadFile("/repo/pkg/samples/form/fill/english.json")

	n := len(spec.Tasks)
	outs := make([][]byte, n)    // raw outputs, digested after the run
	results := make([]string, n) // direct results
	hists := make([][]HistEvent, n)
	fns := make([]func(), n)
	for i, ts := range spec.Tasks {
		i, ts := i, ts
		doc := append([]byte(nil), docs[ts.Doc]...)
		fns[i] = func() {
			var buf bytes.Buffer
			var err error
			conf := model.NewDefaultConfiguration()
			switch ts.Kind {
			case "validate":
				err = api.Validate(bytes.NewReader(doc), conf)
				results[i] = "validated"
			case "optimize":
				err = api.Optimize(bytes.NewReader(doc), &buf, conf)
			case "rotate":
				err = api.Rotate(bytes.NewReader(doc), &buf, 90, nil, conf)
			case "watermark-core":
				coreFont := "Helvetica"
				if len(ts.Args) > 0 {
					coreFont = ts.Args[0] // different tasks stamp with different core fonts
				}
				wm, e := api.TextWatermark("Draft "+ts.Doc, "font:"+coreFont+", scale:.4", true, false, types.POINTS)
				if e != nil {
					err = e
					break
				}
				err = api.AddWatermarks(bytes.NewReader(doc), &buf, nil, wm, conf)
			case "watermark-user":
				wm, e := api.TextWatermark("Größe "+ts.Doc, "font:"+fontName(stableFont)+", scale:.4", true, false, types.POINTS)
				if e != nil {
					err = e
					break
				}
				err = api.AddWatermarks(bytes.NewReader(doc), &buf, nil, wm, conf)
			case "encrypt":
				c := model.NewAESConfiguration("u", "o", 256)
				err = api.Encrypt(bytes.NewReader(doc), &buf, c)
			case "merge":
				err = api.MergeRaw([]io.ReadSeeker{bytes.NewReader(doc), bytes.NewReader(append([]byte(nil), docs["test.pdf"]...))}, &buf, false, conf)
			case "split":
				ps, e := api.SplitRaw(bytes.NewReader(doc), 1, conf)
				err = e
				var sb strings.Builder
				for _, p := range ps {
					bb, _ := io.ReadAll(p.Reader)
					fmt.Fprintf(&sb, "%d-%d:%d ", p.From, p.Thru, len(bb)/64)
				}
				results[i] = sb.String()
			case "fillform":
				err = api.FillForm(bytes.NewReader(append([]byte(nil), formPDF...)), bytes.NewReader(formJSON), &buf, conf)
			case "lookup":
				var sb strings.Builder
				for _, name := range ts.Args {
					call := simsched.Tick()
					simsched.Yield("lookup")
					if strings.HasPrefix(name, "read:") {
						// the installed font program, as every user-font embedding reads it
						bb, e := font.Read(strings.TrimPrefix(name, "read:"))
						res := "ERR"
						if e == nil {
							res = progDigest(bb)
						}
						hists[i] = append(hists[i], HistEvent{Task: i, Op: "read", Arg: strings.TrimPrefix(name, "read:"), Result: res, Call: call, Ret: simsched.Tick()})
						fmt.Fprintf(&sb, "%s=%s ", name, res)
						continue
					}
					if name == "*" {
						nn, e := font.UserFontNames()
						sort.Strings(nn)
						res := strings.Join(nn, ",")
						if e != nil {
							res = "ERR:" + e.Error()
						}
						hists[i] = append(hists[i], HistEvent{Task: i, Op: "names", Result: res, Call: call, Ret: simsched.Tick()})
						fmt.Fprintf(&sb, "names=%s ", res)
						continue
					}
					ok, e := font.IsUserFont(name)
					res := fmt.Sprint(ok)
					if e != nil {
						res = "ERR:" + e.Error()
					}
					hists[i] = append(hists[i], HistEvent{Task: i, Op: "isuser", Arg: name, Result: res, Call: call, Ret: simsched.Tick()})
					fmt.Fprintf(&sb, "%s=%s ", name, res)
					if ok {
						ttf, found, e := font.UserFont(name)
						if e == nil && found {
							fmt.Fprintf(&sb, "(%d glyphs) ", ttf.GlyphCount)
						}
					}
				}
				results[i] = sb.String()
			case "reload":
				err = font.ReloadUserFonts()
				results[i] = "reloaded"
			case "installer":
				for _, set := range ts.Sets {
					// rewrite the directory to exactly set (+ the stable font), then reload
					want := map[string]string{fontName(stableFont) + ".gob": "new"}
					for _, c := range []byte(set) {
						rev := "new"
						if c >= 'a' && c <= 'z' {
							rev, c = "old", c-'a'+'A'
						}
						want[fontName(c)+".gob"] = rev
					}
					for _, nm := range sortedNames(onDisk) {
						if _, keep := want[nm]; !keep {
							c0 := simsched.Tick()
							os.Remove(filepath.Join(fontDir, nm))
							delete(onDisk, nm)
							hists[i] = append(hists[i], HistEvent{Task: i, Op: "disk", Arg: strings.TrimSuffix(nm, ".gob") + "=absent", Result: "ok", Call: c0, Ret: simsched.Tick()})
						}
					}
					for _, nm := range sortedNames(want) {
						if onDisk[nm] != want[nm] {
							b, _ := os.ReadFile(poolFile(nm, want[nm]))
							// staged under a name the font loader does not take for a font, published by rename
							os.WriteFile(filepath.Join(fontDir, ".stage-"+nm+".tmp"), b, 0644)
							c0 := simsched.Tick()
							os.Rename(filepath.Join(fontDir, ".stage-"+nm+".tmp"), filepath.Join(fontDir, nm))
							onDisk[nm] = want[nm]
							hists[i] = append(hists[i], HistEvent{Task: i, Op: "disk", Arg: strings.TrimSuffix(nm, ".gob") + "=" + want[nm], Result: "ok", Call: c0, Ret: simsched.Tick()})
						}
					}
					call := simsched.Tick()
					e := font.ReloadUserFonts()
					res := "ok"
					if e != nil {
						res = "ERR:" + e.Error()
					}
					hists[i] = append(hists[i], HistEvent{Task: i, Op: "reload", Arg: set, Result: res, Call: call, Ret: simsched.Tick()})
				}
				results[i] = "installed " + strings.Join(ts.Sets, ">")
			default:
				err = fmt.Errorf("unknown task kind %q", ts.Kind)
			}
			if err != nil {
				results[i] = "ERR: " + err.Error()
				return
			}
			if buf.Len() > 0 {
				outs[i] = buf.Bytes()
			}
		}
	}
	sw := spec.SwitchPermille
	if spec.Solo {
		sw = 0
	}
	s := simsched.New(fns, spec.Decisions, sw)
	if spec.PCTDepth > 0 && !spec.Solo {
		s.SetPCT(spec.PCTDepth, spec.PCTHorizon)
	}
	s.Run()
	res := RunResult{Steps: s.Steps(), Switches: s.Switches, Deadlock: s.Deadlock, Panics: map[int]string{}, StatePoints: s.StatePoints}
	for id, p := range s.Panics() {
		res.Panics[id] = fmt.Sprint(p)
	}
	if s.Deadlock == "" {
		// with everything quiet: what does every font name read as now? (a stale font program that
		// outlives the reload which replaced it shows here at the latest)
		end := 1 << 40 // after everything
		for _, c := range []byte{'A', 'B', 'C', 'D', stableFont} {
			bb, e := font.Read(fontName(c))
			r := "ERR"
			if e == nil {
				r = progDigest(bb)
			}
			res.History = append(res.History, HistEvent{Task: -1, Op: "read", Arg: fontName(c), Result: r, Call: end, Ret: end})
		}
		for i := range spec.Tasks {
			r := results[i]
			if outs[i] != nil {
				r = digestPDF(work, outs[i], spec.Tasks[i].Kind == "encrypt")
			}
			res.Results = append(res.Results, r)
			res.History = append(res.History, hists[i]...)
		}
	}
	h := sha256.New()
	for _, st := range s.Trace {
		fmt.Fprintf(h, "%d:%d:%s:%d;", st.N, st.Task, st.Op, st.Next)
	}
	res.TraceSum = hex.EncodeToString(h.Sum(nil)[:8])
	if os.Getenv("VERIF_C40_TRACE") != "" {
		res.Trace = s.Trace
	}
	return &res, 0
}

func progDigest(b []byte) string {
	h := sha256.Sum256(b)
	return hex.EncodeToString(h[:6])
}

func sortedNames[V any](m map[string]V) []string {
	var nn []string
	for k := range m {
		nn = append(nn, k)
	}
	sort.Strings(nn)
	return nn
}

func digestPDF(work string, b []byte, encrypted bool) string {
	p := filepath.Join(work, "digest.pdf")
	os.WriteFile(p, b, 0644)
	defer os.Remove(p)
	upw, opw := "", ""
	if encrypted {
		upw, opw = "u", "o"
	}
	d, err := pdfobs.Observe(p, upw, opw)
	if err != nil {
		return "UNREADABLE: " + err.Error()
	}
	h := sha256.Sum256([]byte(d.Digest()))
	return fmt.Sprintf("pdf pages=%d digest=%s", len(d.Pages), hex.EncodeToString(h[:8]))
}

// ---------------------------------------------------------------- parent side

type c40 struct{}

func init() { core.Register(c40{}) }

func (c40) ID() string { return "C40" }

// MaxWorkers: race-detector processes slow each other down badly in this sandbox (page-fault cost
// grows with the number of concurrent TSan processes); more than a few in parallel is slower, not faster.
func (c40) MaxWorkers() int { return 4 }
func (c40) Level() string   { return "exploration" }
func (c40) Rule() string {
	return "one schedule = one fresh process built with the race detector: 2-32 caller tasks (validate, optimize, rotate, text watermark with a core font and with a user font, encrypt, merge, split, form fill, font lookups, font reload, and at most one installer that rewrites the font directory through a sequence of sets and reloads) on private in-memory inputs, with the configuration directory disabled; the cooperative scheduler lets exactly one task run and chooses the next one from the seed at every lock/unlock of sync.Mutex/RWMutex (incl. sync.Once) and every file-system call; switch probability and task mix vary per schedule; in half of the schedules without an installer the lazy first font load races with the lookups. Every schedule is also run once without interleaving in another fresh process. Distinct by the hash of the scheduling-point sequence; non-trivial when at least one task switch happened."
}
func (c40) Assumptions() []string {
	return []string{
		"race freedom is judged by Go's race detector under the simulator's schedule: the hand-over between tasks is invisible to the detector (plain-variable spin in //go:norace code), so it sees exactly the program's own synchronisation",
		"preemption between scheduling points is not explored: a switch happens only at lock operations and file-system calls",
		"results are compared after normalisation through pdfcpu's reader (identifiers, timestamps and encryption randomness do not take part)",
		"font-registry linearizability: only the installer task modifies the directory, every registry state contains the stable font; Unknown (time-out) from the checker is inconclusive and never reported",
	}
}
func (c40) RealVsStub() map[string]string {
	return map[string]string{"pdfcpu API and all package state": "real", "goroutines": "real goroutines, one runnable at a time; the choice of who runs is the simulator's", "sync.Mutex/RWMutex/Once, os file calls": "real, with scheduling points added by build overlay", "race detection": "Go race detector (TSan) in the child build"}
}

// C40Unit is a batch of schedules.
type C40Unit struct {
	Seed uint64 `json:"seed"`
	N    int    `json:"n"`
}

func (c40) Units(tier string, seed int64) ([]core.Unit, error) {
	total := 80
	if tier != "quick" {
		total = 1600
	}
	rng := rand.New(rand.NewPCG(uint64(seed), 0xC40))
	var units []core.Unit
	per := 10
	for done := 0; done < total; done += per {
		b, _ := json.Marshal(C40Unit{Seed: rng.Uint64(), N: per})
		units = append(units, b)
	}
	return units, nil
}

// genFocused draws a small schedule about the font programs: one or two readers, an installer that
// flips the revision of the fonts they read once or twice, PCT with few change points among the
// first few scheduling points. (Small, deep and biased: a reader held back across one complete
// replace-and-reload is the shape that matters, and in a large uniform schedule it is rare.)
func genFocused(rng *rand.Rand) RunSpec {
	spec := RunSpec{Seed: rng.Uint64(), Preload: true}
	x := []byte{'A', 'B'}[rng.IntN(2)] // the font whose revision is flipped and read
	other := byte('A' + 'B' - x)
	readers := 1 + rng.IntN(2)
	for i := 0; i < readers; i++ {
		ts := TaskSpec{Kind: "lookup", Doc: corpus[0]}
		for j := 0; j < 2+rng.IntN(3); j++ {
			ts.Args = append(ts.Args, []string{"read:" + fontName(x), "read:" + fontName(x), "read:" + fontName(x), "read:" + fontName(other), "*", fontName(x)}[rng.IntN(6)])
		}
		spec.Tasks = append(spec.Tasks, ts)
	}
	lo := string(x - 'A' + 'a')
	up := string(x)
	o := string(other)
	inst := TaskSpec{Kind: "installer"}
	flips := [][]string{{lo + o}, {lo}, {lo + o, up + o}, {o, lo + o}, {lo + o + "C"}, {lo + strings.ToLower(o)}}
	inst.Sets = flips[rng.IntN(len(flips))]
	spec.Tasks = append(spec.Tasks, inst)
	rng.Shuffle(len(spec.Tasks), func(i, j int) { spec.Tasks[i], spec.Tasks[j] = spec.Tasks[j], spec.Tasks[i] })
	spec.SwitchPermille = 100
	spec.PCTDepth = 2 + rng.IntN(2)
	spec.PCTHorizon = []int{16, 16, 64}[rng.IntN(3)]
	for i := 0; i < 512; i++ {
		spec.Decisions = append(spec.Decisions, rng.Uint32())
	}
	return spec
}

func genSpec(rng *rand.Rand) RunSpec {
	if rng.IntN(3) == 0 {
		return genFocused(rng)
	}
	spec := RunSpec{Seed: rng.Uint64()}
	nt := 2 + rng.IntN(5)
	switch rng.IntN(10) {
	case 0:
		nt = 8 + rng.IntN(25) // up to 32
	case 1, 2:
		nt = 2
	}
	installer := rng.IntN(3) == 0
	kinds := []string{"validate", "optimize", "rotate", "watermark-core", "watermark-user", "watermark-user", "encrypt", "merge", "split", "fillform", "lookup", "lookup", "lookup", "reload"}
	for i := 0; i < nt; i++ {
		k := kinds[rng.IntN(len(kinds))]
		if nt > 8 && (k == "fillform" || k == "merge") {
			k = "lookup" // keep large schedules fast
		}
		ts := TaskSpec{Kind: k, Doc: corpus[rng.IntN(len(corpus))]}
		if k == "watermark-core" {
			// half of the stamps share one core font (first use of the same font by two tasks), the others differ
			ts.Args = []string{"Helvetica"}
			if rng.IntN(2) == 0 {
				ts.Args = []string{[]string{"Courier", "Times-Roman", "Helvetica-Bold", "Courier-Oblique", "Times-BoldItalic", "Symbol"}[rng.IntN(6)]}
			}
		}
		if k == "lookup" {
			for j := 0; j < 2+rng.IntN(5); j++ {
				ts.Args = append(ts.Args, []string{fontName('A'), fontName('B'), fontName('C'), fontName('D'), fontName(stableFont), "*", "Helvetica", "NoSuchFont"}[rng.IntN(8)])
			}
		}
		spec.Tasks = append(spec.Tasks, ts)
	}
	if installer {
		sets := []string{"AB", "ABC", "B", "CD", "", "ABCD", "A", "aB", "Ab", "a", "ab", "aBc", "A"}
		ts := TaskSpec{Kind: "installer"}
		for j := 0; j < 1+rng.IntN(4); j++ {
			ts.Sets = append(ts.Sets, sets[rng.IntN(len(sets))])
		}
		if rng.IntN(2) == 0 {
			// a schedule about font programs: the installer flips revisions of A and B, the lookups read them
			ts.Sets = nil
			flips := []string{"aB", "AB", "Ab", "ab", "a", "A", "aBC"}
			for j := 0; j < 2+rng.IntN(4); j++ {
				ts.Sets = append(ts.Sets, flips[rng.IntN(len(flips))])
			}
			for i := range spec.Tasks {
				if spec.Tasks[i].Kind == "lookup" || rng.IntN(3) == 0 {
					spec.Tasks[i] = TaskSpec{Kind: "lookup", Doc: spec.Tasks[i].Doc}
					for j := 0; j < 2+rng.IntN(5); j++ {
						spec.Tasks[i].Args = append(spec.Tasks[i].Args, []string{"read:" + fontName('A'), "read:" + fontName('A'), "read:" + fontName('B'), fontName('A'), "*"}[rng.IntN(5)])
					}
				}
			}
		}
		spec.Tasks[rng.IntN(len(spec.Tasks))] = ts
		spec.Preload = true
		// only the installer reloads in such a schedule: another task's reload would pick up a directory
		// that the harness (not the API) is rewriting underneath it, which is not the property's subject
		for i := range spec.Tasks {
			if spec.Tasks[i].Kind == "reload" {
				spec.Tasks[i] = TaskSpec{Kind: "lookup", Doc: spec.Tasks[i].Doc, Args: []string{"*", fontName('A'), fontName('C')}}
			}
		}
	} else {
		spec.Preload = rng.IntN(2) == 0
	}
	spec.SwitchPermille = []int{30, 100, 300, 600, 900}[rng.IntN(5)]
	if rng.IntN(3) == 0 {
		spec.PCTDepth = 1 + rng.IntN(3)
		spec.PCTHorizon = []int{40, 150, 600, 3000}[rng.IntN(4)]
	}
	for i := 0; i < 512; i++ {
		spec.Decisions = append(spec.Decisions, rng.Uint32())
	}
	return spec
}

var reRace = regexp.MustCompile(`(?s)WARNING: DATA RACE\n(.*?)\n==================`)
var reFrame = regexp.MustCompile(`\n  ([^\s(]+)\(\)\n\s+(\S+):(\d+)`)

// raceSignature reduces a race report to the two innermost pdfcpu frames.
func raceSignature(report string) (sig string, detail string) {
	parts := strings.Split(report, "Previous ")
	var tops []string
	for _, part := range parts {
		top := ""
		for _, m := range reFrame.FindAllStringSubmatch(part, -1) {
			if strings.Contains(m[1], "pdfcpu/pdfcpu/") {
				fn := m[1][strings.LastIndex(m[1], "/")+1:]
				top = fn
				break
			}
		}
		if top == "" {
			if m := reFrame.FindStringSubmatch(part); m != nil {
				top = m[1]
			}
		}
		tops = append(tops, top)
	}
	sort.Strings(tops)
	return strings.Join(tops, " <-> "), report
}

var poolDir string
var poolDigests = map[string]string{}

// fontPool installs fonts A..D and Z once per worker process (with the real installer).
func fontPool() (string, error) {
	if poolDir != "" {
		return poolDir, nil
	}
	d, err := os.MkdirTemp("/dev/shm", "c40pool-")
	if err != nil {
		d, err = os.MkdirTemp("", "c40pool-")
		if err != nil {
			return "", err
		}
	}
	tmp := filepath.Join(d, "f.ttf")
	for _, c := range []byte{'A', 'B', 'C', 'D', stableFont} {
		os.WriteFile(tmp, gen.Variant(c, 0), 0644)
		if _, err := font.InstallTrueTypeFont(d, tmp); err != nil {
			return "", fmt.Errorf("font pool: %w", err)
		}
	}
	// older revisions of A..D: the same font names with a different font program
	old := filepath.Join(d, "old")
	os.Mkdir(old, 0755)
	for _, c := range []byte{'A', 'B', 'C', 'D'} {
		os.WriteFile(tmp, gen.Variant(c, 'X'), 0644)
		if _, err := font.InstallTrueTypeFont(old, tmp); err != nil {
			return "", fmt.Errorf("font pool (old revisions): %w", err)
		}
	}
	os.Remove(tmp)
	// the font program each installed representation carries, decoded here without font.Read
	for _, c := range []byte{'A', 'B', 'C', 'D', stableFont} {
		for rev, dir := range map[string]string{"new": d, "old": old} {
			if rev == "old" && c == stableFont {
				continue
			}
			f, err := os.Open(filepath.Join(dir, fontName(c)+".gob"))
			if err != nil {
				return "", err
			}
			var rep struct{ FontFile []byte }
			err = gob.NewDecoder(f).Decode(&rep)
			f.Close()
			if err != nil || len(rep.FontFile) == 0 {
				return "", fmt.Errorf("font pool: cannot decode %s (%s): %v", fontName(c), rev, err)
			}
			poolDigests[fontName(c)+"="+rev] = progDigest(rep.FontFile)
		}
	}
	if poolDigests[fontName('A')+"=new"] == poolDigests[fontName('A')+"=old"] {
		return "", fmt.Errorf("font pool: old and new revision carry the same font program")
	}
	poolDir = d
	return d, nil
}

// CleanupPool removes the worker's font pool.
func CleanupPool() {
	if poolDir != "" && os.Getenv("VERIF_C40_KEEP") == "" {
		os.RemoveAll(poolDir)
	}
}

// runChild runs a batch of schedules in one race-detector process and returns the result and the
// race-detector output of each.
func runChild(specs []RunSpec, trace bool) ([]*RunResult, []string, error) {
	pool, err := fontPool()
	if err != nil {
		return nil, nil, err
	}
	dir, err := os.MkdirTemp(filepath.Join(core.VerifDir, ".build"), "c40-")
	if err != nil {
		return nil, nil, err
	}
	if os.Getenv("VERIF_C40_KEEP") == "" {
		defer os.RemoveAll(dir)
	} else {
		fmt.Fprintln(os.Stderr, "c40 debug: batch kept in", dir) // debug aid
	}
	b, _ := json.Marshal(Batch{Pool: pool, Specs: specs})
	sf := filepath.Join(dir, "specs.json")
	os.WriteFile(sf, b, 0644)
	bin := filepath.Join(core.VerifDir, ".build", "verifsim-race")
	cmd := exec.Command(bin, "c40run", sf)
	cmd.Env = append(os.Environ(), "GOMAXPROCS=2", "GORACE=halt_on_error=0 history_size=6", "VERIF_SCRATCH=/dev/shm")
	if trace {
		cmd.Env = append(cmd.Env, "VERIF_C40_TRACE=1")
	}
	var stdout, stderr bytes.Buffer
	cmd.Stdout, cmd.Stderr = &stdout, &stderr
	done := make(chan error, 1)
	if err := cmd.Start(); err != nil {
		return nil, nil, err
	}
	go func() { done <- cmd.Wait() }()
	select {
	case <-done:
	case <-time.After(time.Duration(120+60*len(specs)) * time.Second):
		cmd.Process.Kill()
		return nil, nil, fmt.Errorf("child did not finish in time: %s", tailStr(stderr.String(), 1500))
	}
	if f := os.Getenv("VERIF_C40_STDERR"); f != "" {
		os.WriteFile(f, stderr.Bytes(), 0644) // debug aid: the race detector's raw output
	}
	results := make([]*RunResult, len(specs))
	sc := bufio.NewScanner(&stdout)
	sc.Buffer(make([]byte, 1<<20), 1<<28)
	for sc.Scan() {
		var idx int
		if n, _ := fmt.Sscanf(sc.Text(), "C40RESULT %d ", &idx); n == 1 && idx < len(specs) {
			line := sc.Text()
			js := line[strings.Index(line, "{"):]
			r := &RunResult{}
			if err := json.Unmarshal([]byte(js), r); err != nil {
				return nil, nil, err
			}
			results[idx] = r
		}
	}
	// split the race detector's output by schedule
	errs := make([]string, len(specs))
	parts := strings.Split(stderr.String(), "C40SCHEDULE ")
	for _, p := range parts[1:] {
		var idx int
		if n, _ := fmt.Sscanf(p, "%d begin", &idx); n == 1 && idx < len(specs) {
			errs[idx] = p
		}
	}
	if results[0] == nil {
		return nil, nil, fmt.Errorf("child produced no result: %s", tailStr(stderr.String(), 1500))
	}
	return results, errs, nil
}

func tailStr(s string, n int) string {
	if len(s) > n {
		return s[len(s)-n:]
	}
	return s
}

// registry model for porcupine
type regIn struct {
	Op  string
	Arg string
}

func regModel() porcupine.Model {
	return porcupine.Model{
		Init: func() interface{} { return "AB" },
		Step: func(state, input, output interface{}) (bool, interface{}) {
			st := state.(string)
			in := input.(regIn)
			out := output.(string)
			has := func(name string) bool {
				if name == fontName(stableFont) {
					return true
				}
				for _, c := range []byte(strings.ToUpper(st)) {
					if fontName(c) == name {
						return true
					}
				}
				return false
			}
			switch in.Op {
			case "reload":
				return out == "ok", in.Arg
			case "isuser":
				return out == fmt.Sprint(has(in.Arg)), st
			case "names":
				var nn []string
				for _, c := range []byte(strings.ToUpper(st)) {
					nn = append(nn, fontName(c))
				}
				nn = append(nn, fontName(stableFont))
				sort.Strings(nn)
				return out == strings.Join(nn, ","), st
			}
			return false, st
		},
		Equal: func(a, b interface{}) bool { return a.(string) == b.(string) },
		DescribeOperation: func(in, out interface{}) string {
			i := in.(regIn)
			return fmt.Sprintf("%s(%s) -> %s", i.Op, i.Arg, out)
		},
	}
}

// staleReads checks the font programs that font.Read returned against what was on disk.
//
// Rule (allows any correct cache that a reload invalidates, and a plain read of the disk): a read R
// of name N may return the program of any revision that N had on disk at some moment between the
// START of the last reload that COMPLETED before R began (time 0 if there is none) and the end of
// R. A revision that was replaced before that reload even started must never come back.
func staleReads(hist []HistEvent) []string {
	digestOf := poolDigests // "<name>=<rev>" -> digest of the font program in that installed representation
	type diskEv struct {
		call, ret int
		rev       string
	}
	disk := map[string][]diskEv{}
	for _, c := range []byte{'A', 'B', stableFont} {
		disk[fontName(c)] = []diskEv{{-1, -1, "new"}}
	}
	for _, c := range []byte{'C', 'D'} {
		disk[fontName(c)] = []diskEv{{-1, -1, "absent"}}
	}
	var reloads []HistEvent
	for _, e := range hist {
		switch e.Op {
		case "disk":
			nv := strings.SplitN(e.Arg, "=", 2)
			disk[nv[0]] = append(disk[nv[0]], diskEv{e.Call, e.Ret, nv[1]})
		case "reload":
			reloads = append(reloads, e)
		}
	}
	var out []string
	for _, r := range hist {
		if r.Op != "read" {
			continue
		}
		t := 0
		for _, l := range reloads {
			if l.Ret < r.Call && l.Call > t { // completed strictly before the read began
				t = l.Call
			}
		}
		permitted := map[string]bool{}
		var base *diskEv
		evs := disk[r.Arg]
		for i := range evs {
			e := evs[i]
			if e.ret < t {
				base = &evs[i] // the revision on disk when that reload started
				continue
			}
			if e.call <= r.Ret {
				permitted[e.rev] = true
			}
		}
		if base != nil {
			permitted[base.rev] = true
		}
		ok := false
		var allowed []string
		for rev := range permitted {
			want := "ERR"
			if rev != "absent" {
				want = digestOf[r.Arg+"="+rev]
			}
			allowed = append(allowed, rev+":"+want)
			if r.Result == want {
				ok = true
			}
		}
		if !ok {
			sort.Strings(allowed)
			out = append(out, fmt.Sprintf("task %d read the font program of %s at [%d,%d] and got %s; the revisions on disk since the start (step %d) of the last reload completed before the read are %v", r.Task, r.Arg, r.Call, r.Ret, r.Result, t, allowed))
		}
	}
	return out
}

func judge(spec RunSpec, solo, conc *RunResult, stderrConc string) []core.Violation {
	var vs []core.Violation
	mk := func(class, tail, detail string) {
		b, _ := json.Marshal(spec)
		var kinds []string
		for _, t := range spec.Tasks {
			kinds = append(kinds, t.Kind)
		}
		vs = append(vs, core.Violation{Property: "C40", Class: class, Signature: "C40|" + class + "|" + tail, Replay: b,
			Detail: fmt.Sprintf("schedule seed %d: tasks %v, switch probability %d/1000, preload=%v; %d scheduling points, %d switches, trace %s\n%s", spec.Seed, kinds, spec.SwitchPermille, spec.Preload, conc.Steps, conc.Switches, conc.TraceSum, detail)})
	}
	if m := reRace.FindStringSubmatch(stderrConc); m != nil {
		sig, det := raceSignature(m[1])
		mk("data-race", sig, det)
	}
	if conc.Deadlock != "" {
		mk("deadlock", "", conc.Deadlock)
		return vs
	}
	for id, p := range conc.Panics {
		mk("panic", spec.Tasks[id].Kind, fmt.Sprintf("task %d (%s) panicked: %s", id, spec.Tasks[id].Kind, p))
	}
	hasInstaller := false
	for _, t := range spec.Tasks {
		if t.Kind == "installer" {
			hasInstaller = true
		}
	}
	for i, t := range spec.Tasks {
		if i >= len(conc.Results) || i >= len(solo.Results) {
			continue
		}
		if hasInstaller && t.Kind == "lookup" {
			continue // depends on where the installer is; covered by the linearizability check
		}
		if conc.Results[i] != solo.Results[i] {
			mk("result-differs", t.Kind, fmt.Sprintf("task %d (%s on %s) returned a different result when interleaved:\n  alone:       %s\n  interleaved: %s", i, t.Kind, t.Doc, solo.Results[i], conc.Results[i]))
		}
	}
	// linearizability of the font registry
	var ops []porcupine.Operation
	for _, v := range staleReads(conc.History) {
		mk("stale-font-program", "", v)
	}
	for _, e := range conc.History {
		if e.Op == "read" || e.Op == "disk" {
			continue // judged by staleReads
		}
		ops = append(ops, porcupine.Operation{ClientId: e.Task, Input: regIn{e.Op, e.Arg}, Call: int64(e.Call), Output: e.Result, Return: int64(e.Ret)})
	}
	if len(ops) > 0 && len(ops) <= 60 {
		// make stamps strictly ordered: an operation that returned at step n precedes one called at n
		for i := range ops {
			ops[i].Call = ops[i].Call*2 + 1
			ops[i].Return = ops[i].Return*2 + 2
		}
		if r := porcupine.CheckOperationsTimeout(regModel(), ops, 10*time.Second); r == porcupine.Illegal {
			var sb strings.Builder
			for _, e := range conc.History {
				fmt.Fprintf(&sb, "  task %d [%d,%d] %s(%s) -> %s\n", e.Task, e.Call, e.Ret, e.Op, e.Arg, e.Result)
			}
			mk("registry-not-linearizable", "", "the history of reloads and lookups has no sequential explanation:\n"+sb.String())
		}
	}
	return vs
}

func (c40) RunUnit(raw core.Unit, tier string, seed int64) core.UnitResult {
	var u C40Unit
	res := core.UnitResult{FaultFired: map[string]int{}, EventsSeen: map[string]int{}, Probes: map[string]int{}}
	if err := json.Unmarshal(raw, &u); err != nil {
		res.Trouble = err.Error()
		return res
	}
	rng := rand.New(rand.NewPCG(u.Seed, 40))
	var specs, solos []RunSpec
	for i := 0; i < u.N; i++ {
		spec := genSpec(rng)
		if i > 0 {
			spec.Preload = true // only the first schedule of a process can meet the lazy first load
		}
		specs = append(specs, spec)
		so := spec
		so.Solo = true
		solos = append(solos, so)
	}
	soloRes, soloErr, err := runChild(solos, false)
	if err != nil {
		res.Trouble = fmt.Sprintf("solo child: %v", err)
		return res
	}
	concRes, concErr, err := runChild(specs, false)
	if err != nil {
		res.Trouble = fmt.Sprintf("child: %v", err)
		return res
	}
	for i, spec := range specs {
		solo, conc := soloRes[i], concRes[i]
		if conc == nil || solo == nil {
			// an earlier schedule of the batch deadlocked and ended the process
			res.Probes["schedules_not_run_after_deadlock"]++
			continue
		}
		res.Evaluations++
		res.SimSteps += conc.Steps
		res.EventsSeen["scheduling_points"] += conc.Steps
		res.EventsSeen["task_switches"] += conc.Switches
		res.EventsSeen["tasks"] += len(spec.Tasks)
		res.EventsSeen["registry_operations"] += len(conc.History)
		if conc.Switches > 0 {
			res.Nontrivial = append(res.Nontrivial, conc.TraceSum)
		}
		if !spec.Preload {
			res.Probes["lazy_first_load_races_with_lookups"]++
		}
		// which kinds of schedule / disturbance really ran
		if spec.PCTDepth > 0 {
			res.FaultFired[fmt.Sprintf("schedule-pct-depth-%d", spec.PCTDepth)]++
		} else {
			res.FaultFired["schedule-coin"]++
		}
		for _, e := range conc.History {
			switch e.Op {
			case "disk":
				res.FaultFired["font-file-replaced-or-removed"]++
			case "reload":
				res.FaultFired["font-reload"]++
			case "read":
				res.EventsSeen["font_program_reads"]++
			}
		}
		for _, st := range conc.Trace {
			_ = st
		}
		res.EventsSeen["state_points"] += conc.StatePoints
		for _, t := range spec.Tasks {
			if t.Kind == "installer" {
				res.Probes["schedules_with_installer"]++
			}
		}
		if len(spec.Tasks) >= 16 {
			res.Probes["schedules_with_16_or_more_tasks"]++
		}
		if strings.Contains(soloErr[i], "WARNING: DATA RACE") {
			res.Probes["race_reported_without_interleaving"]++
		}
		vs := judge(spec, solo, conc, concErr[i])
		res.Violations = append(res.Violations, vs...)
		if len(res.Samples) == 0 {
			var kinds []string
			for _, t := range spec.Tasks {
				kinds = append(kinds, t.Kind)
			}
			res.Samples = append(res.Samples, map[string]any{"seed": spec.Seed, "tasks": kinds, "switch_permille": spec.SwitchPermille, "scheduling_points": conc.Steps, "switches": conc.Switches, "results": conc.Results, "registry_history": conc.History, "violations": len(vs)})
		}
	}
	return res
}

func (c40) Replay(payload json.RawMessage) ([]core.Violation, error) {
	var spec RunSpec
	if err := json.Unmarshal(payload, &spec); err != nil {
		return nil, err
	}
	soloSpec := spec
	soloSpec.Solo = true
	solo, _, err := runChild([]RunSpec{soloSpec}, false)
	if err != nil {
		return nil, err
	}
	conc, cerr, err := runChild([]RunSpec{spec}, true)
	if err != nil {
		return nil, err
	}
	fmt.Printf("%d scheduling points, %d switches, trace %s\n", conc[0].Steps, conc[0].Switches, conc[0].TraceSum)
	for i, st := range conc[0].Trace {
		if i > 60 {
			fmt.Println("  ...")
			break
		}
		fmt.Printf("  step %d: task %d %s -> next %d\n", st.N, st.Task, st.Op, st.Next)
	}
	for i, r := range conc[0].Results {
		fmt.Printf("  result task %d: %s\n", i, r)
	}
	for _, e := range conc[0].History {
		fmt.Printf("  history: task %d [%d,%d] %s(%s) -> %s\n", e.Task, e.Call, e.Ret, e.Op, e.Arg, e.Result)
	}
	return judge(spec, solo[0], conc[0], cerr[0]), nil
}

// Minimise: drop tasks while the same class persists.
func (c40) Minimise(v core.Violation, budget int) json.RawMessage {
	var spec RunSpec
	if json.Unmarshal(v.Replay, &spec) != nil {
		return nil
	}
	still := func(s RunSpec) bool {
		vs, err := c40{}.Replay(mustJSON(s))
		if err != nil {
			return false
		}
		for _, x := range vs {
			if x.Class == v.Class {
				return true
			}
		}
		return false
	}
	changed := false
	for i := len(spec.Tasks) - 1; i >= 0 && len(spec.Tasks) > 2 && budget > 0; i-- {
		c := spec
		c.Tasks = append(append([]TaskSpec{}, spec.Tasks[:i]...), spec.Tasks[i+1:]...)
		budget--
		if still(c) {
			spec = c
			changed = true
		}
	}
	if !changed {
		return nil
	}
	return mustJSON(spec)
}

func mustJSON(v any) json.RawMessage {
	b, _ := json.Marshal(v)
	return b
}
