package t2tmp

import (
	"bytes"
	"fmt"
	"os"
	"path/filepath"
	"testing"
	"time"

	"github.com/pdfcpu/pdfcpu/pkg/api"
	"github.com/pdfcpu/pdfcpu/pkg/pdfcpu/model"
)

func TestDbg(t *testing.T) {
	dir := t.TempDir()
	path := filepath.Join(dir, "x.pdf")
	b, _ := os.ReadFile("/repo/pkg/testdata/zineTest.pdf")
	os.WriteFile(path, b, 0644)
	conf := model.NewDefaultConfiguration()
	add := func(n string) {
		f := filepath.Join(dir, n)
		os.WriteFile(f, []byte("content of "+n), 0644)
		if err := api.AddAttachmentsFile(path, "", []string{f}, false, conf); err != nil {
			t.Fatal(err)
		}
	}
	for _, n := range []string{"p07", "p01", "p13", "p03", "p11", "p05", "p09", "p02", "p12", "p04", "p10", "p06", "p08", "p00"} {
		add(n + ".pre")
	}
	f0 := filepath.Join(dir, "!bang.txt")
	f1 := filepath.Join(dir, "0.txt")
	os.WriteFile(f0, []byte("bang"), 0644)
	os.WriteFile(f1, []byte("zero"), 0644)
	if err := api.AddAttachmentsFile(path, "", []string{f0, f1}, false, conf); err != nil {
		t.Fatal(err)
	}
	bb, _ := os.ReadFile(path)
	conf.Cmd = model.ADDATTACHMENTS
	ctx, err := api.ReadValidateAndOptimize(bytes.NewReader(bb), conf)
	if err != nil {
		t.Fatal(err)
	}
	ctx.LocateNameTree("EmbeddedFiles", false)
	show := func(tag string) {
		fmt.Println("==", tag)
		fmt.Println(ctx.Names["EmbeddedFiles"])
	}
	show("start")
	mt := time.Now()
	ok, err := ctx.RemoveAttachment(model.Attachment{ID: "!bang.txt"})
	fmt.Println(ok, err)
	show("-bang")
	err = ctx.AddAttachment(model.Attachment{Reader: bytes.NewReader([]byte("File")), ID: "File.txt", ModTime: &mt}, false)
	fmt.Println(err)
	show("+File")
	ok, err = ctx.RemoveAttachment(model.Attachment{ID: "0.txt"})
	fmt.Println(ok, err)
	show("-0")
	var out bytes.Buffer
	if err := api.Write(ctx, &out, conf); err != nil {
		t.Fatal(err)
	}
	os.WriteFile(path, out.Bytes(), 0644)
	ff, _ := os.Open(path)
	aa, err := api.Attachments(ff, conf)
	fmt.Println(len(aa), err)
	for _, a := range aa {
		fmt.Print(a.ID, " ")
	}
	fmt.Println()
}
