// Package core is the coordinator shared by all checks: it shards work units over worker
// processes, collects their results, confirms and minimises violations, matches them against the
// committed known-findings file, prints the verdict lines and writes the evidence file.
package core

import (
	"bufio"
	"crypto/sha256"
	"encoding/hex"
	"encoding/json"
	"fmt"
	"os"
	"os/exec"
	"path/filepath"
	"regexp"
	"runtime"
	"sort"
	"strconv"
	"strings"
	"sync"
	"time"
	"verif/simclock"
)

// VerifDir is where known_findings.json is read and evidence/replays are written: /verif, unless
// the driver script runs from a snapshot copy (vp run), which sets VERIF_HOME to that copy.
var VerifDir = func() string {
	if d := os.Getenv("VERIF_HOME"); d != "" {
		return d
	}
	return "/verif"
}()

// Unit is one independent piece of work (an op config, a history seed range, ...).
type Unit = json.RawMessage

// Violation reported by a worker.
type Violation struct {
	Property  string          `json:"property"`
	Class     string          `json:"class"`     // stable name of the violated clause
	Signature string          `json:"signature"` // dedupe key; also what known findings match on
	Detail    string          `json:"detail"`
	Replay    json.RawMessage `json:"replay"` // property-specific replay payload
}

// UnitResult is what a worker reports for one unit.
type UnitResult struct {
	Unit        Unit           `json:"unit"`
	Evaluations int            `json:"evaluations"`
	Nontrivial  []string       `json:"nontrivial,omitempty"` // keys of distinct non-trivial cases
	FaultFired  map[string]int `json:"fault_fired,omitempty"`
	EventsSeen  map[string]int `json:"events_seen,omitempty"`
	Probes      map[string]int `json:"probes,omitempty"`
	Samples     []any          `json:"samples,omitempty"`
	Violations  []Violation    `json:"violations,omitempty"`
	SimSteps    int            `json:"sim_steps,omitempty"`
	SimSeconds  float64        `json:"sim_seconds,omitempty"`
	Trouble     string         `json:"trouble,omitempty"` // harness trouble -> exit 2
}

// ReplayFile is the on-disk replay format.
type ReplayFile struct {
	Property  string          `json:"property"`
	Class     string          `json:"class"`
	Signature string          `json:"signature"`
	Detail    string          `json:"detail"`
	Seed      int64           `json:"seed"`
	Tier      string          `json:"tier"`
	TreeHash  string          `json:"tree_hash"`
	Payload   json.RawMessage `json:"payload"`
	Minimised bool            `json:"minimised"`
}

// Property is implemented once per claimed property.
type Property interface {
	ID() string
	Level() string // evidence level
	Rule() string
	Assumptions() []string
	RealVsStub() map[string]string
	// Units enumerates the work for a tier from the seed.
	Units(tier string, seed int64) ([]Unit, error)
	// RunUnit executes one unit in a worker process.
	RunUnit(u Unit, tier string, seed int64) UnitResult
	// Replay re-executes a replay payload and returns the violations it shows (same format).
	Replay(payload json.RawMessage) ([]Violation, error)
	// Minimise may return a smaller payload that still shows class; default: nil.
	Minimise(v Violation, budget int) json.RawMessage
}

var registry = map[string]Property{}

func Register(p Property)    { registry[p.ID()] = p }
func Get(id string) Property { return registry[id] }
func IDs() []string {
	var ids []string
	for id := range registry {
		ids = append(ids, id)
	}
	sort.Strings(ids)
	return ids
}

// KnownFinding is one entry of /verif/known_findings.json.
type KnownFinding struct {
	ID          string `json:"id"`
	Status      string `json:"status"` // "known" or "fixed"
	Property    string `json:"property"`
	Class       string `json:"class"`        // exact
	SignatureRE string `json:"signature_re"` // anchored regexp over Violation.Signature
	What        string `json:"what"`
	Commit      string `json:"commit,omitempty"`
}

type knownFile struct {
	Findings []KnownFinding `json:"findings"`
}

func loadKnown() ([]KnownFinding, error) {
	b, err := os.ReadFile(filepath.Join(VerifDir, "known_findings.json"))
	if err != nil {
		if os.IsNotExist(err) {
			return nil, nil
		}
		return nil, err
	}
	var kf knownFile
	if err := json.Unmarshal(b, &kf); err != nil {
		return nil, err
	}
	return kf.Findings, nil
}

func matchKnown(kfs []KnownFinding, v Violation) *KnownFinding {
	for i := range kfs {
		k := &kfs[i]
		if k.Status != "known" || k.Property != v.Property || k.Class != v.Class {
			continue
		}
		re, err := regexp.Compile("^(?:" + k.SignatureRE + ")$")
		if err != nil {
			continue
		}
		if re.MatchString(v.Signature) {
			return k
		}
	}
	return nil
}

// outDir: evidence and replay files go below /verif unless redirected (used only when the harness
// is pointed at a scratch copy of the repository to try out seeded changes).
func outDir(env, def string) string {
	if d := os.Getenv(env); d != "" {
		return d
	}
	return filepath.Join(VerifDir, def)
}

// Seed returns VERIF_SEED or the default.
func Seed() int64 {
	if s := os.Getenv("VERIF_SEED"); s != "" {
		if v, err := strconv.ParseInt(s, 10, 64); err == nil {
			return v
		}
	}
	return 1
}

// TreeHash hashes /repo's go sources (informational, goes into replay files).
func TreeHash() string {
	out, err := exec.Command("git", "-C", "/repo", "rev-parse", "HEAD").Output()
	h := strings.TrimSpace(string(out))
	if err != nil {
		h = "unknown"
	}
	st, _ := exec.Command("git", "-C", "/repo", "status", "--porcelain").Output()
	if len(strings.TrimSpace(string(st))) > 0 {
		s := sha256.Sum256(st)
		d, _ := exec.Command("git", "-C", "/repo", "diff").Output()
		s2 := sha256.Sum256(append(s[:], d...))
		h += "+dirty:" + hex.EncodeToString(s2[:6])
	}
	return h
}

type workerMsg struct {
	Result *UnitResult `json:"result,omitempty"`
}

// Worker entry: verifsim worker <id> <tier> <seed> <unitsfile> <shard> <nshards>
func WorkerMain(args []string) int {
	if len(args) < 6 {
		fmt.Fprintln(os.Stderr, "worker: bad args")
		return 2
	}
	p := Get(args[0])
	if p == nil {
		fmt.Fprintln(os.Stderr, "worker: unknown property", args[0])
		return 2
	}
	tier := args[1]
	seed, _ := strconv.ParseInt(args[2], 10, 64)
	b, err := os.ReadFile(args[3])
	if err != nil {
		fmt.Fprintln(os.Stderr, "worker:", err)
		return 2
	}
	var units []Unit
	if err := json.Unmarshal(b, &units); err != nil {
		fmt.Fprintln(os.Stderr, "worker:", err)
		return 2
	}
	shard, _ := strconv.Atoi(args[4])
	n, _ := strconv.Atoi(args[5])
	w := bufio.NewWriter(os.Stdout)
	enc := json.NewEncoder(w)
	for i, u := range units {
		if i%n != shard {
			continue
		}
		t0 := simclock.TotalSeconds()
		r := p.RunUnit(u, tier, seed)
		r.Unit = u
		if r.SimSeconds == 0 {
			r.SimSeconds = simclock.TotalSeconds() - t0 // simulated wall-clock time the unit's runs read
		}
		enc.Encode(workerMsg{Result: &r})
		w.Flush()
	}
	return 0
}

// Evidence file layout (superset of EVIDENCE.schema.json).
type Evidence struct {
	PropertyID  string         `json:"property_id"`
	Tier        string         `json:"tier"`
	Seed        int64          `json:"seed"`
	Level       string         `json:"level"`
	Coverage    map[string]any `json:"coverage"`
	Assumptions []string       `json:"assumptions"`
	WallS       float64        `json:"wall_s"`
	Violations  int            `json:"violations"`
}

// CheckMain runs a whole check: verifsim check <id> <tier>. Returns the exit code.
func CheckMain(id, tier string) int {
	start := time.Now()
	p := Get(id)
	if p == nil {
		fmt.Fprintln(os.Stderr, "unknown property", id)
		return 2
	}
	seed := Seed()
	fmt.Printf("check %s tier=%s VERIF_SEED=%d tree=%s\n", id, tier, seed, TreeHash())
	units, err := p.Units(tier, seed)
	if err != nil {
		fmt.Fprintln(os.Stderr, "units:", err)
		return 2
	}
	nw := runtime.NumCPU()
	if s := os.Getenv("VERIF_WORKERS"); s != "" {
		if v, err := strconv.Atoi(s); err == nil && v > 0 {
			nw = v
		}
	}
	if mw, ok := p.(interface{ MaxWorkers() int }); ok && nw > mw.MaxWorkers() {
		nw = mw.MaxWorkers()
	}
	if nw > len(units) {
		nw = len(units)
	}
	if nw < 1 {
		nw = 1
	}
	tmp, err := os.MkdirTemp(filepath.Join(VerifDir, ".build"), "units-")
	if err != nil {
		fmt.Fprintln(os.Stderr, err)
		return 2
	}
	defer os.RemoveAll(tmp)
	ub, _ := json.Marshal(units)
	uf := filepath.Join(tmp, "units.json")
	os.WriteFile(uf, ub, 0644)

	self, _ := os.Executable()
	var mu sync.Mutex
	var results []UnitResult
	var wg sync.WaitGroup
	trouble := ""
	for i := 0; i < nw; i++ {
		wg.Add(1)
		go func(i int) {
			defer wg.Done()
			cmd := exec.Command(self, "worker", id, tier, strconv.FormatInt(seed, 10), uf, strconv.Itoa(i), strconv.Itoa(nw))
			cmd.Env = append(os.Environ(), "GOMAXPROCS=2")
			var stderr strings.Builder
			cmd.Stderr = &stderr
			out, err := cmd.StdoutPipe()
			if err != nil {
				mu.Lock()
				trouble = err.Error()
				mu.Unlock()
				return
			}
			if err := cmd.Start(); err != nil {
				mu.Lock()
				trouble = err.Error()
				mu.Unlock()
				return
			}
			sc := bufio.NewScanner(out)
			sc.Buffer(make([]byte, 1<<20), 1<<28)
			for sc.Scan() {
				var m workerMsg
				if err := json.Unmarshal(sc.Bytes(), &m); err != nil {
					continue
				}
				if m.Result != nil {
					mu.Lock()
					results = append(results, *m.Result)
					mu.Unlock()
				}
			}
			if err := cmd.Wait(); err != nil {
				mu.Lock()
				trouble = fmt.Sprintf("worker %d: %v\n%s", i, err, tail(stderr.String(), 4000))
				mu.Unlock()
			}
		}(i)
	}
	wg.Wait()
	if trouble != "" {
		fmt.Fprintln(os.Stderr, "HARNESS TROUBLE (exit 2, not a violation):", trouble)
		return 2
	}
	if len(results) != len(units) {
		fmt.Fprintf(os.Stderr, "HARNESS TROUBLE: %d results for %d units\n", len(results), len(units))
		return 2
	}
	// deterministic order
	sort.Slice(results, func(i, j int) bool { return string(results[i].Unit) < string(results[j].Unit) })

	ev := Evidence{PropertyID: id, Tier: tier, Seed: seed, Level: p.Level(), Assumptions: p.Assumptions()}
	evals, steps := 0, 0
	simsec := 0.0
	nontrivial := map[string]bool{}
	fired, seen, probes := map[string]int{}, map[string]int{}, map[string]int{}
	var samples []any
	var viols []Violation
	for _, r := range results {
		if r.Trouble != "" {
			fmt.Fprintln(os.Stderr, "HARNESS TROUBLE (exit 2, not a violation):", r.Trouble)
			return 2
		}
		evals += r.Evaluations
		steps += r.SimSteps
		simsec += r.SimSeconds
		for _, k := range r.Nontrivial {
			nontrivial[k] = true
		}
		for k, v := range r.FaultFired {
			fired[k] += v
		}
		for k, v := range r.EventsSeen {
			seen[k] += v
		}
		for k, v := range r.Probes {
			if strings.HasPrefix(k, "max_") { // maxima are merged as maxima, everything else is a count
				if v > probes[k] {
					probes[k] = v
				}
				continue
			}
			probes[k] += v
		}
		if len(samples) < 12 {
			for _, s := range r.Samples {
				if len(samples) < 12 {
					samples = append(samples, s)
				}
			}
		}
		viols = append(viols, r.Violations...)
	}

	// dedupe by signature
	bySig := map[string][]Violation{}
	var sigs []string
	for _, v := range viols {
		if _, ok := bySig[v.Signature]; !ok {
			sigs = append(sigs, v.Signature)
		}
		bySig[v.Signature] = append(bySig[v.Signature], v)
	}
	sort.Strings(sigs)
	kfs, err := loadKnown()
	if err != nil {
		fmt.Fprintln(os.Stderr, "known_findings.json:", err)
		return 2
	}
	exit := 0
	nviol := 0
	knownHit := map[string]int{}
	replayDir := filepath.Join(outDir("VERIF_REPLAY_DIR", "replays"), id)
	tree := TreeHash()
	for _, sig := range sigs {
		v := bySig[sig][0]
		if k := matchKnown(kfs, v); k != nil {
			knownHit[k.ID] += len(bySig[sig])
			continue
		}
		// unlisted: minimise, write replay, confirm in a fresh process
		payload := v.Replay
		minimised := false
		if m := p.Minimise(v, 200); m != nil {
			payload, minimised = m, true
		}
		os.MkdirAll(replayDir, 0755)
		h := sha256.Sum256([]byte(sig))
		rf := ReplayFile{Property: id, Class: v.Class, Signature: v.Signature, Detail: v.Detail, Seed: seed, Tier: tier, TreeHash: tree, Payload: payload, Minimised: minimised}
		path := filepath.Join(replayDir, fmt.Sprintf("%s-%s.json", sanitize(v.Class), hex.EncodeToString(h[:5])))
		b, _ := json.MarshalIndent(rf, "", " ")
		os.WriteFile(path, b, 0644)
		// fresh-process confirmation
		out, err := exec.Command(self, "replay", path).CombinedOutput()
		code := 0
		if ee, ok := err.(*exec.ExitError); ok {
			code = ee.ExitCode()
		} else if err != nil {
			code = 2
		}
		if code != 1 {
			fmt.Fprintf(os.Stderr, "HARNESS TROUBLE: violation %s did not reproduce in a fresh process (exit %d); not reported as a violation\n%s\n", sig, code, tail(string(out), 2000))
			return 2
		}
		nviol++
		exit = 1
		fmt.Printf("VIOLATION property=%s replay=%s\n", id, path)
		fmt.Printf("  class=%s occurrences=%d\n  signature=%s\n  detail=%s\n", v.Class, len(bySig[sig]), v.Signature, firstLines(v.Detail, 12))
	}
	var kids []string
	for k := range knownHit {
		kids = append(kids, k)
	}
	sort.Strings(kids)
	for _, kid := range kids {
		for _, k := range kfs {
			if k.ID == kid {
				fmt.Printf("KNOWN-FINDING: property=%s %s [%s, %d occurrence(s) this run]\n", id, k.What, k.ID, knownHit[kid])
			}
		}
	}
	for name, c := range probes {
		if c == 0 {
			fmt.Printf("warning: probe %q stayed at 0\n", name)
		}
	}
	wall := time.Since(start).Seconds()
	ev.WallS = wall
	ev.Violations = nviol
	ev.Coverage = map[string]any{
		"evaluations":         evals,
		"distinct_nontrivial": len(nontrivial),
		"rule":                p.Rule(),
		"samples":             samples,
		"units":               len(units),
		"workers":             nw,
		"runs_per_hour":       int(float64(evals) / wall * 3600),
		"fault_kind_fired":    fired,
		"events_seen":         seen,
		"probes":              probes,
		"simulated_steps":     steps,
		"simulated_seconds":   simsec,
		"real_vs_stub":        p.RealVsStub(),
		"known_findings_hit":  knownHit,
		"tree":                tree,
		"exhaustive":          false,
	}
	if len(samples) == 0 {
		ev.Coverage["samples"] = []any{"(no sample recorded)"}
	}
	evDir := outDir("VERIF_EVIDENCE_DIR", "evidence")
	os.MkdirAll(evDir, 0755)
	b, _ := json.MarshalIndent(ev, "", " ")
	if err := os.WriteFile(filepath.Join(evDir, id+".json"), b, 0644); err != nil {
		fmt.Fprintln(os.Stderr, err)
		return 2
	}
	fmt.Printf("%s %s: units=%d evaluations=%d distinct_nontrivial=%d violations=%d known=%d wall=%.1fs\n", id, tier, len(units), evals, len(nontrivial), nviol, len(knownHit), wall)
	return exit
}

// ReplayMain: verifsim replay <file>; exit 1 if the violation shows again, 0 if not, 2 on trouble.
func ReplayMain(path string) int {
	b, err := os.ReadFile(path)
	if err != nil {
		fmt.Fprintln(os.Stderr, err)
		return 2
	}
	var rf ReplayFile
	if err := json.Unmarshal(b, &rf); err != nil {
		fmt.Fprintln(os.Stderr, err)
		return 2
	}
	p := Get(rf.Property)
	if p == nil {
		fmt.Fprintln(os.Stderr, "unknown property", rf.Property)
		return 2
	}
	vs, err := p.Replay(rf.Payload)
	if err != nil {
		fmt.Fprintln(os.Stderr, "replay trouble:", err)
		return 2
	}
	for _, v := range vs {
		if v.Class == rf.Class {
			fmt.Printf("VIOLATION property=%s replay=%s\n  class=%s\n  detail=%s\n", rf.Property, path, v.Class, firstLines(v.Detail, 40))
			return 1
		}
	}
	if len(vs) > 0 {
		fmt.Printf("replay shows a different violation class (%s, recorded %s)\n", vs[0].Class, rf.Class)
		return 3
	}
	fmt.Println("not reproduced: the property holds on this replay")
	return 0
}

func sanitize(s string) string {
	return regexp.MustCompile(`[^A-Za-z0-9_.-]+`).ReplaceAllString(s, "_")
}

func tail(s string, n int) string {
	if len(s) > n {
		return s[len(s)-n:]
	}
	return s
}

func firstLines(s string, n int) string {
	ll := strings.Split(s, "\n")
	if len(ll) > n {
		ll = append(ll[:n], "...")
	}
	return strings.Join(ll, "\n         ")
}
