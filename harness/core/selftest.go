package core

import (
	"bufio"
	"bytes"
	"crypto/sha256"
	"encoding/hex"
	"encoding/json"
	"fmt"
	"os"
	"os/exec"
	"path/filepath"
	"sort"
	"strconv"
	"strings"
)

// SelfTestMain: verifsim selftest <id> [n-units] [outfile]
//
// Determinism self-test: n work units of the quick tier are each executed in three fresh worker
// processes with different GOMAXPROCS (1, 4, 16) and the canonical digests of what they report
// (evaluations, distinct cases, fault and event counters, probes other than wall-time ones, the
// signatures of violations, simulated steps) are compared. A simulator in which one source of
// nondeterminism is not behind the seam fails here long before it produces a violation that does
// not replay. Exit 0: all identical; 1: a unit differed; 2: trouble.
func SelfTestMain(args []string) int {
	if len(args) < 1 {
		fmt.Fprintln(os.Stderr, "usage: verifsim selftest <id> [n-units] [outfile]")
		return 2
	}
	p := Get(args[0])
	if p == nil {
		fmt.Fprintln(os.Stderr, "unknown property", args[0])
		return 2
	}
	n := 6
	if len(args) > 1 {
		if v, err := strconv.Atoi(args[1]); err == nil && v > 0 {
			n = v
		}
	}
	seed := Seed()
	units, err := p.Units("quick", seed)
	if err != nil {
		fmt.Fprintln(os.Stderr, err)
		return 2
	}
	if n > len(units) {
		n = len(units)
	}
	var pick []Unit
	for i := 0; i < n; i++ {
		pick = append(pick, units[i*len(units)/n])
	}
	tmp, err := os.MkdirTemp(filepath.Join(VerifDir, ".build"), "selftest-")
	if err != nil {
		fmt.Fprintln(os.Stderr, err)
		return 2
	}
	defer os.RemoveAll(tmp)
	self, _ := os.Executable()
	type row struct {
		Unit      string   `json:"unit"`
		Digests   []string `json:"digests"` // per GOMAXPROCS 1,4,16
		Identical bool     `json:"identical"`
		Diff      string   `json:"diff,omitempty"`
	}
	var rows []row
	bad := 0
	for i, u := range pick {
		uf := filepath.Join(tmp, fmt.Sprintf("u%d.json", i))
		b, _ := json.Marshal([]Unit{u})
		os.WriteFile(uf, b, 0644)
		var digs, canon []string
		for _, gmp := range []string{"1", "4", "16"} {
			cmd := exec.Command(self, "worker", p.ID(), "quick", strconv.FormatInt(seed, 10), uf, "0", "1")
			cmd.Env = append(os.Environ(), "GOMAXPROCS="+gmp)
			var stderr bytes.Buffer
			cmd.Stderr = &stderr
			out, err := cmd.Output()
			if err != nil {
				fmt.Fprintf(os.Stderr, "selftest: worker failed: %v\n%s\n", err, tail(stderr.String(), 1500))
				return 2
			}
			var res *UnitResult
			sc := bufio.NewScanner(bytes.NewReader(out))
			sc.Buffer(make([]byte, 1<<20), 1<<28)
			for sc.Scan() {
				var m workerMsg
				if json.Unmarshal(sc.Bytes(), &m) == nil && m.Result != nil {
					res = m.Result
				}
			}
			if res == nil {
				fmt.Fprintln(os.Stderr, "selftest: no result from worker")
				return 2
			}
			if res.Trouble != "" {
				fmt.Fprintln(os.Stderr, "selftest: harness trouble:", res.Trouble)
				return 2
			}
			c := canonical(res)
			h := sha256.Sum256([]byte(c))
			digs = append(digs, hex.EncodeToString(h[:8]))
			canon = append(canon, c)
		}
		r := row{Unit: compact(u), Digests: digs, Identical: digs[0] == digs[1] && digs[1] == digs[2]}
		if !r.Identical {
			bad++
			r.Diff = firstDiff(canon[0], canon[1])
			if r.Diff == "" {
				r.Diff = firstDiff(canon[1], canon[2])
			}
		}
		rows = append(rows, r)
		fmt.Printf("selftest %s unit %d/%d: %v %s\n", p.ID(), i+1, len(pick), digs, map[bool]string{true: "identical", false: "DIFFERENT: " + r.Diff}[r.Identical])
	}
	rep := map[string]any{"property_id": p.ID(), "seed": seed, "tree": TreeHash(), "units": len(pick), "processes_per_unit": 3, "gomaxprocs": []int{1, 4, 16}, "different": bad, "rows": rows}
	if len(args) > 2 {
		b, _ := json.MarshalIndent(rep, "", " ")
		os.MkdirAll(filepath.Dir(args[2]), 0755)
		os.WriteFile(args[2], b, 0644)
	}
	if bad > 0 {
		return 1
	}
	return 0
}

func compact(u Unit) string {
	s := string(u)
	if len(s) > 160 {
		s = s[:160] + "..."
	}
	return s
}

// canonical renders everything of a unit result that must be a function of (code, unit, seed).
func canonical(r *UnitResult) string {
	var sb strings.Builder
	fmt.Fprintf(&sb, "evaluations=%d\nsteps=%d\n", r.Evaluations, r.SimSteps)
	nt := append([]string{}, r.Nontrivial...)
	sort.Strings(nt)
	for _, k := range nt {
		fmt.Fprintf(&sb, "case %s\n", k)
	}
	for _, m := range []struct {
		n string
		m map[string]int
	}{{"fault", r.FaultFired}, {"event", r.EventsSeen}, {"probe", r.Probes}} {
		var ks []string
		for k := range m.m {
			ks = append(ks, k)
		}
		sort.Strings(ks)
		for _, k := range ks {
			if strings.Contains(k, "latency") || strings.Contains(k, "_us") || strings.Contains(k, "_ms") || strings.Contains(k, "wall") {
				continue // wall-clock measurements are reported, never judged
			}
			fmt.Fprintf(&sb, "%s %s=%d\n", m.n, k, m.m[k])
		}
	}
	var sigs []string
	for _, v := range r.Violations {
		sigs = append(sigs, v.Class+" "+v.Signature)
	}
	sort.Strings(sigs)
	for _, s := range sigs {
		fmt.Fprintf(&sb, "violation %s\n", s)
	}
	return sb.String()
}

func firstDiff(a, b string) string {
	la, lb := strings.Split(a, "\n"), strings.Split(b, "\n")
	for i := 0; i < len(la) || i < len(lb); i++ {
		x, y := "", ""
		if i < len(la) {
			x = la[i]
		}
		if i < len(lb) {
			y = lb[i]
		}
		if x != y {
			if len(x) > 200 {
				x = x[:200]
			}
			if len(y) > 200 {
				y = y[:200]
			}
			return fmt.Sprintf("line %d: %q vs %q", i+1, x, y)
		}
	}
	return ""
}
