// Package pdfobs observes a PDF file through pdfcpu's own reader and reduces it to a digest that is
// independent of file identifiers, timestamps and encryption randomness. Trusted base of the
// oracles that use it: pdfcpu's reader and validator.
package pdfobs

import (
	"crypto/sha256"
	"encoding/hex"
	"fmt"
	"io"
	"sort"
	"strings"

	"github.com/pdfcpu/pdfcpu/pkg/api"
	"github.com/pdfcpu/pdfcpu/pkg/pdfcpu"
	"github.com/pdfcpu/pdfcpu/pkg/pdfcpu/model"
)

// Page is the observable state of one page.
type Page struct {
	W, H    float64
	Rot     int
	Content string // sha256 of the decoded content stream(s)
	Crop    string
	Annots  int
}

// Doc is the observable state of a document.
type Doc struct {
	Pages      []Page
	Keywords   []string
	Properties map[string]string
	Attach     []string
	Layout     string
	Mode       string
	Encrypted  bool
	Bookmarks  int
	HasForm    bool
	ViewerPref bool
}

// Observe reads path (with optional passwords) and validates it.
func Observe(path, upw, opw string) (*Doc, error) {
	conf := model.NewDefaultConfiguration()
	conf.UserPW, conf.OwnerPW = upw, opw
	conf.Cmd = model.VALIDATE
	ctx, err := pdfcpu.ReadFile(path, conf)
	if err != nil {
		return nil, fmt.Errorf("read: %w", err)
	}
	if err := api.ValidateContext(ctx); err != nil {
		return nil, fmt.Errorf("validate: %w", err)
	}
	return FromContext(ctx)
}

// FromContext digests an already read and validated context.
func FromContext(ctx *model.Context) (*Doc, error) {
	d := &Doc{Properties: map[string]string{}}
	d.Encrypted = ctx.E != nil
	dims, err := ctx.PageDims()
	if err != nil {
		return nil, fmt.Errorf("page dims: %w", err)
	}
	for i := 1; i <= ctx.PageCount; i++ {
		p := Page{}
		if i-1 < len(dims) {
			p.W, p.H = dims[i-1].Width, dims[i-1].Height
		}
		pd, _, inh, err := ctx.PageDict(i, false)
		if err != nil {
			return nil, fmt.Errorf("page %d: %w", i, err)
		}
		if inh != nil {
			p.Rot = ((inh.Rotate % 360) + 360) % 360
			if inh.CropBox != nil {
				p.Crop = fmt.Sprintf("%.2f %.2f %.2f %.2f", inh.CropBox.LL.X, inh.CropBox.LL.Y, inh.CropBox.UR.X, inh.CropBox.UR.Y)
			}
		}
		if a := pd.ArrayEntry("Annots"); a != nil {
			p.Annots = len(a)
		}
		r, err := pdfcpu.ExtractPageContent(ctx, i)
		if err != nil {
			return nil, fmt.Errorf("page %d content: %w", i, err)
		}
		if r != nil {
			b, err := io.ReadAll(r)
			if err != nil {
				return nil, err
			}
			h := sha256.Sum256(b)
			p.Content = hex.EncodeToString(h[:8])
		}
		d.Pages = append(d.Pages, p)
	}
	kw, err := pdfcpu.KeywordsList(ctx)
	if err != nil {
		return nil, fmt.Errorf("keywords: %w", err)
	}
	d.Keywords = append(d.Keywords, kw...)
	sort.Strings(d.Keywords)
	for k, v := range ctx.Properties {
		d.Properties[k] = v
	}
	aa, err := ctx.ListAttachments()
	if err == nil {
		for _, a := range aa {
			d.Attach = append(d.Attach, a.ID)
		}
		sort.Strings(d.Attach)
	}
	if ctx.PageLayout != nil {
		d.Layout = ctx.PageLayout.String()
	}
	if ctx.PageMode != nil {
		d.Mode = ctx.PageMode.String()
	}
	if ctx.Outlines != nil {
		d.Bookmarks = 1
	}
	d.HasForm = ctx.Form != nil
	d.ViewerPref = ctx.ViewerPref != nil
	return d, nil
}

// Digest is a canonical string of d.
func (d *Doc) Digest() string {
	var sb strings.Builder
	fmt.Fprintf(&sb, "pages=%d enc=%v layout=%s mode=%s bm=%d form=%v vp=%v\n", len(d.Pages), d.Encrypted, d.Layout, d.Mode, d.Bookmarks, d.HasForm, d.ViewerPref)
	for i, p := range d.Pages {
		fmt.Fprintf(&sb, " p%d %.1fx%.1f rot=%d crop=%s annots=%d c=%s\n", i+1, p.W, p.H, p.Rot, p.Crop, p.Annots, p.Content)
	}
	fmt.Fprintf(&sb, " kw=%q\n", d.Keywords)
	var ks []string
	for k := range d.Properties {
		ks = append(ks, k)
	}
	sort.Strings(ks)
	for _, k := range ks {
		fmt.Fprintf(&sb, " prop %q=%q\n", k, d.Properties[k])
	}
	fmt.Fprintf(&sb, " attach=%q\n", d.Attach)
	return sb.String()
}
