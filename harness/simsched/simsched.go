// Package simsched is the cooperative scheduler of the simulator: tasks are real goroutines of
// which exactly one runs at any time; a task gives up control only at scheduling points (lock
// operations hooked in package sync, file-system calls hooked in package os, task start and end),
// where the next task to run is drawn from the seeded chooser. The hand-over ("baton") is a spin on
// a plain variable inside //go:norace functions, so a race-detector build sees only the
// synchronisation of the program under test, not the scheduler's.
package simsched

import (
	"fmt"
	"os"
	"runtime"
	"strings"
	"sync"
	"unsafe"
)

const maxTasks = 64

// Decisions are drawn before the run starts (so that no harness state is written while tasks run,
// which a race-detector build would report): decision k is used at scheduling point k.
// A decision d means: keep running the current task unless d%1000 < SwitchPermille, in which case
// the (d/1000 % n)-th other runnable task runs next.

// Step of the recorded schedule.
type Step struct {
	N    int    `json:"n"`
	Task int    `json:"task"`
	Op   string `json:"op"`
	Next int    `json:"next"`
}

type task struct {
	id      int
	goid    uint64
	started bool
	done    bool
	blocked unsafe.Pointer
	fn      func()
	panicV  any
	doneCh  chan struct{}
}

// Sched is one simulated concurrent execution.
type Sched struct {
	tasks          []*task
	Decisions      []uint32
	SwitchPermille int
	steps          int
	Trace          []Step
	Switches       int
	StatePoints    int // scheduling points reached through runtime.VerifSchedPoint (module state accesses)
	Deadlock       string
	MaxSteps       int

	// baton: id of the task allowed to run; -1 = the controlling goroutine
	baton    int
	goids    [maxTasks]uint64
	ngoids   int
	inSched  bool
	spins    int
	progress int // steps since some task last made progress while others are blocked

	// PCT strategy (Burckhardt et al., "A Randomized Scheduler with Probabilistic Guarantees of Finding
	// Bugs"): every task has a priority, the runnable task with the highest priority runs, and at d-1
	// change points (step numbers drawn before the run) the running task drops below all others. A
	// task can so be held back across an arbitrarily long stretch of another task's work - the shape
	// "reader pauses, installer completes, reader resumes" that a per-point coin rarely produces.
	ticks  int
	pct    bool
	prio   [maxTasks]int
	change []int // global step numbers
	// task-relative change points: task changeTask[i] is demoted when it passes its changeAt[i]-th own
	// scheduling point (a short task's few points are hit far more often than through global step numbers)
	changeTask []int
	changeAt   []int
	tcount     [maxTasks]int
	lowPrio    int
}

var active *Sched

// New creates a schedule over fns.
func New(fns []func(), decisions []uint32, switchPermille int) *Sched {
	s := &Sched{Decisions: decisions, SwitchPermille: switchPermille, baton: -1, MaxSteps: 20000000}
	for i, f := range fns {
		s.tasks = append(s.tasks, &task{id: i, fn: f, doneCh: make(chan struct{})})
	}
	return s
}

// SetPCT switches the schedule to the PCT strategy with depth d (d-1 priority change points among the
// first horizon scheduling points). Everything is derived from the decision array drawn for the run.
func (s *Sched) SetPCT(d, horizon int) {
	if d < 1 || len(s.Decisions) < 2*maxTasks || horizon < 1 {
		return
	}
	s.pct = true
	n := len(s.tasks)
	// random permutation of priorities n..1 (Fisher-Yates over the decision array)
	perm := make([]int, n)
	for i := range perm {
		perm[i] = i
	}
	for i := n - 1; i > 0; i-- {
		j := int(s.Decisions[i] % uint32(i+1))
		perm[i], perm[j] = perm[j], perm[i]
	}
	for rank, id := range perm {
		s.prio[id] = n - rank + d // all initial priorities are above the d-1 low ones
	}
	for i := 0; i < d-1; i++ {
		x := s.Decisions[maxTasks+i]
		if x&1 == 0 {
			s.change = append(s.change, int((x>>1)%uint32(horizon)))
		} else {
			s.changeTask = append(s.changeTask, int((x>>1)%uint32(n)))
			s.changeAt = append(s.changeAt, 1+int((x>>9)%uint32(min(horizon, 256))))
		}
	}
	s.lowPrio = d - 1
}

// choose picks the next task at scheduling point step. cur = -1: the current task has ended.
//
//go:norace
func (s *Sched) choose(step, cur int, cand []int) int {
	if s.pct {
		if cur >= 0 {
			s.tcount[cur]++
			for _, c := range s.change {
				if c == step {
					s.prio[cur] = s.lowPrio
					s.lowPrio--
				}
			}
			for i, t := range s.changeTask {
				if t == cur && s.changeAt[i] == s.tcount[cur] {
					s.prio[cur] = s.lowPrio
					s.lowPrio--
				}
			}
		}
		// a task that is waiting for a lock ranks below every task that can make progress (its holder
		// must get to run); it retries when nothing else can run or its lock was released
		eff := func(c int) int {
			if s.tasks[c].blocked != nil {
				return s.prio[c] - 4*maxTasks
			}
			return s.prio[c]
		}
		best := cand[0]
		for _, c := range cand {
			if eff(c) > eff(best) {
				best = c
			}
		}
		return best
	}
	d := uint32(step*2654435761) >> 7
	if len(s.Decisions) > 0 {
		d = s.Decisions[step%len(s.Decisions)]
	}
	if cur >= 0 {
		stay := false
		for _, c := range cand {
			if c == cur {
				stay = true
			}
		}
		if stay && int(d%1000) >= s.SwitchPermille {
			return cur
		}
		var others []int
		for _, c := range cand {
			if c != cur {
				others = append(others, c)
			}
		}
		if len(others) > 0 {
			cand = others
		}
	}
	return cand[int(d/1000)%len(cand)]
}

const controllerSlot = 70

func slotOf(id int) int {
	if id < 0 {
		return controllerSlot
	}
	return id
}

//go:norace
func (s *Sched) waitBaton(id int) {
	for s.baton != id {
		runtime.VerifPark(slotOf(id))
	}
}

//go:norace
func (s *Sched) pass(to int) {
	s.baton = to
	runtime.VerifReady(slotOf(to))
}

//go:norace
func (s *Sched) isTask(goid uint64) bool {
	if s.inSched {
		return false
	}
	for i := 0; i < s.ngoids; i++ {
		if s.goids[i] == goid {
			return s.baton >= 0 && s.tasks[s.baton].goid == goid
		}
	}
	return false
}

//go:norace
func (s *Sched) cur() *task {
	if s.baton < 0 {
		return nil
	}
	return s.tasks[s.baton]
}

// point is a scheduling point reached by the running task.
//
//go:norace
func (s *Sched) point(op string, addr unsafe.Pointer, blockedOn unsafe.Pointer) {
	t := s.cur()
	if t == nil {
		return
	}
	s.inSched = true
	s.steps++
	t.blocked = blockedOn
	if s.steps > s.MaxSteps {
		s.Deadlock = fmt.Sprintf("no termination within %d scheduling points", s.MaxSteps)
		s.inSched = false
		s.abort()
		return
	}
	if addr != nil && blockedOn == nil && strings.HasSuffix(op, "unlock") {
		for _, x := range s.tasks {
			if x.blocked == addr {
				x.blocked = nil // the lock it waits for has just been released
			}
		}
	}
	var runnable []int
	allBlocked := true
	for _, x := range s.tasks {
		if x.done {
			continue
		}
		runnable = append(runnable, x.id)
		if x.blocked == nil {
			allBlocked = false
		}
	}
	if allBlocked {
		s.progress++
		if s.progress > 4*len(s.tasks)+8 {
			s.Deadlock = "every live task is blocked on a lock"
			s.inSched = false
			s.abort()
			return
		}
	} else {
		s.progress = 0
	}
	next := t.id
	if len(runnable) > 1 {
		cand := runnable
		if blockedOn != nil {
			// the blocked task itself is the last resort
			cand = cand[:0:0]
			for _, id := range runnable {
				if id != t.id {
					cand = append(cand, id)
				}
			}
		}
		next = s.choose(s.steps, t.id, cand)
	}
	if len(s.Trace) < 4000 {
		s.Trace = append(s.Trace, Step{N: s.steps, Task: t.id, Op: op, Next: next})
	}
	s.inSched = false
	if next != t.id {
		s.Switches++
		s.pass(next)
		s.waitBaton(t.id)
	}
}

//go:norace
func (s *Sched) abort() {
	// give the baton back to the controller; tasks stay parked forever (the process is recycled)
	s.baton = -2
	runtime.VerifReady(controllerSlot)
	select {}
}

// Steps returns the number of scheduling points so far (used to stamp history events).
//
//go:norace
func (s *Sched) Steps() int { return s.steps }

// Yield is an explicit scheduling point for harness code inside a task.
func Yield(op string) {
	if s := active; s != nil && s.isTask(runtime.VerifGoid()) {
		s.point(op, nil, nil)
	}
}

// Tick returns a strictly increasing event sequence number. Exactly one task runs at any time, so
// the order of ticks is the order in which things really happened; history events are stamped with
// it (scheduling-step numbers tie for consecutive operations of one task, and operations that tie
// would count as concurrent).
//
//go:norace
func Tick() int {
	if s := active; s != nil {
		s.ticks++
		return s.ticks
	}
	return 0
}

// Now returns the current scheduling step (0 outside a simulation).
func Now() int {
	if s := active; s != nil {
		return s.Steps()
	}
	return 0
}

//go:norace
func (s *Sched) taskMain(t *task) {
	t.goid = runtime.VerifGoid()
	s.goids[t.id] = t.goid
	t.started = true
	s.waitBaton(t.id)
	s.runTask(t)
	s.inSched = true
	t.done = true
	t.blocked = nil
	var runnable []int
	for _, x := range s.tasks {
		if !x.done {
			runnable = append(runnable, x.id)
		}
	}
	s.steps++
	next := -1
	if len(runnable) > 0 {
		next = s.choose(s.steps, -1, runnable)
	}
	if len(s.Trace) < 4000 {
		s.Trace = append(s.Trace, Step{N: s.steps, Task: t.id, Op: "end", Next: next})
	}
	s.inSched = false
	close(t.doneCh) // a real happens-before edge task -> controller (results are read after it)
	s.pass(next)
}

func (s *Sched) runTask(t *task) {
	defer func() {
		if p := recover(); p != nil {
			t.panicV = p
		}
	}()
	t.fn()
}

//go:norace
func (s *Sched) allStarted() bool {
	for _, t := range s.tasks {
		if !t.started {
			return false
		}
	}
	return true
}

//go:norace
func (s *Sched) batonBack() bool { return s.baton == -1 || s.baton == -2 }

// Run executes the tasks under the schedule and returns when all have ended (or a deadlock /
// step overflow was detected: Deadlock != "").
func (s *Sched) Run() {
	active = s
	// hooks are installed before the task goroutines exist (goroutine creation orders these writes
	// before every read by a task)
	sync.VerifTaskOf = s.isTask
	sync.VerifPoint = s.syncPoint
	sync.VerifBlocked = s.syncBlocked
	os.VerifPre = s.fsPoint
	os.VerifPost = func(*os.VerifEvent) {}
	runtime.VerifSetSchedHook(s.statePoint)
	for _, t := range s.tasks {
		go s.taskMain(t)
	}
	for !s.allStarted() {
		runtime.Gosched()
	}
	s.start()
	for !s.batonBack() {
		runtime.VerifPark(controllerSlot)
	}
	if s.Deadlock == "" {
		for _, t := range s.tasks {
			<-t.doneCh
		}
	}
	sync.VerifTaskOf, sync.VerifPoint, sync.VerifBlocked = nil, nil, nil
	os.VerifPre, os.VerifPost = nil, nil
	runtime.VerifSetSchedHook(nil)
	active = nil
}

//go:norace
func (s *Sched) start() {
	s.ngoids = len(s.tasks)
	s.pass(s.choose(0, -1, ids(len(s.tasks))))
}

// ModulePrefix selects the lock operations that are scheduling points: those issued directly by
// code of the module under test (also through sync.Once). Lock traffic inside the standard library
// (sync.Pool's allPoolsMu after a GC cycle, ...) depends on garbage-collection timing; taking it as
// scheduling points would make the schedule drift from run to run.
var ModulePrefix = "github.com/pdfcpu/pdfcpu/"

//go:norace
func fromModule() bool {
	var pcs [12]uintptr
	n := runtime.Callers(4, pcs[:])
	frames := runtime.CallersFrames(pcs[:n])
	for {
		f, more := frames.Next()
		if strings.HasPrefix(f.Function, "sync.") {
			if !more {
				return false
			}
			continue
		}
		return strings.HasPrefix(f.Function, ModulePrefix)
	}
}

//go:norace
func (s *Sched) syncPoint(op string, addr unsafe.Pointer) {
	if fromModule() {
		s.point(op, addr, nil)
	}
}

//go:norace
func (s *Sched) syncBlocked(op string, addr unsafe.Pointer) { s.point("blocked-"+op, addr, addr) }

// statePoint: entry of a function of the module under test that touches mutated package state
// (inserted by harness/cmd/instr).
//
//go:norace
func (s *Sched) statePoint() {
	if runtime.VerifCanYield() && s.isTask(runtime.VerifGoid()) {
		s.StatePoints++
		s.point("state", nil, nil)
	}
}

//go:norace
func (s *Sched) fsPoint(ev *os.VerifEvent) os.VerifAction {
	if runtime.VerifCanYield() && s.isTask(runtime.VerifGoid()) {
		s.point("fs-"+ev.Op, nil, nil)
	}
	return os.VerifAction{}
}

// Panics returns the recovered panic values per task.
func (s *Sched) Panics() map[int]any {
	m := map[int]any{}
	for _, t := range s.tasks {
		if t.panicV != nil {
			m[t.id] = t.panicV
		}
	}
	return m
}

func ids(n int) []int {
	out := make([]int, n)
	for i := range out {
		out[i] = i
	}
	return out
}
