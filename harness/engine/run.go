// Package engine runs one op config under one fault plan in a fresh sandbox and returns everything
// the oracles need.
package engine

import (
	"fmt"
	"hash/fnv"
	"os"
	"path/filepath"
	"runtime"
	"runtime/debug"
	"sync/atomic"

	"github.com/pdfcpu/pdfcpu/pkg/api"
	"github.com/pdfcpu/pdfcpu/pkg/font"
	"verif/ops"
	"verif/simclock"
	"verif/simfs"
)

// Config identifies one op configuration.
type Config struct {
	Op       string   `json:"op"`
	Rel      string   `json:"rel"`
	OutMode  uint32   `json:"out_mode,omitempty"`
	Populate []string `json:"populate,omitempty"` // outdir ops: names (relative to out/) pre-created with old content
	// MapSalt selects the order in which Go maps are seeded and walked during the run (the runtime's
	// randomness is owned by the simulator, see overlay/zz_verif_runtime.go.txt): the same value gives
	// the same walk order of pdfcpu's object table and dictionaries, another value another order.
	MapSalt uint64 `json:"map_salt,omitempty"`
}

// MapSeed is the value the runtime's random sequence is restarted from for this configuration.
func (c Config) MapSeed() uint64 {
	// per operation, not per path relation or mode: a run and its reference run (the same operation
	// into a fresh output) must walk their maps alike and read the same simulated time, otherwise
	// results that legitimately depend on either (resource names assigned in walk order, dates)
	// would differ between them
	h := fnv.New64a()
	h.Write([]byte(c.Op))
	return h.Sum64() ^ c.MapSalt
}

func (c Config) String() string {
	s := c.Op + "/" + c.Rel
	if c.OutMode != 0 {
		s += fmt.Sprintf("/%04o", c.OutMode)
	}
	return s
}

// Result of one run.
type Result struct {
	Cfg      Config
	Env      *ops.Env
	Err      error
	Panicked bool
	PanicVal any
	Injected bool   // the panic is the injected one
	Stack    string // of a non-injected panic
	Events   []simfs.Event
	Fired    []simfs.Fault
	S0, S1   simfs.Snap
	Leaked   []string
	Sim      *simfs.Sim
	ValidPDF map[string]bool // failed runs only: new *.pdf path -> validates
}

var scratchBase string
var runCounter atomic.Int64

// ScratchBase returns (and creates) this process's scratch directory.
func ScratchBase() string {
	if scratchBase != "" {
		return scratchBase
	}
	base := os.Getenv("VERIF_SCRATCH")
	if base == "" {
		if fi, err := os.Stat("/dev/shm"); err == nil && fi.IsDir() {
			base = "/dev/shm"
		} else {
			base = os.TempDir()
		}
	}
	d, err := os.MkdirTemp(base, fmt.Sprintf("verif-%d-", os.Getpid()))
	if err != nil {
		fmt.Fprintln(os.Stderr, "cannot create scratch dir:", err)
		os.Exit(2)
	}
	scratchBase = d
	return d
}

// Cleanup removes the process scratch directory.
func Cleanup() {
	if scratchBase != "" {
		os.RemoveAll(scratchBase)
		scratchBase = ""
	}
}

func init() {
	api.DisableConfigDir()
}

var processFontDir string

// useProcessFonts points pdfcpu's user font directory at a process-wide directory (outside every
// sandbox, so its reads are not simulated events) that holds Roboto-Regular.
func useProcessFonts() error {
	if processFontDir == "" {
		d := filepath.Join(ScratchBase(), "procfonts")
		if err := os.MkdirAll(d, 0755); err != nil {
			return err
		}
		if _, err := font.InstallTrueTypeFont(d, filepath.Join(ops.TestData, "fonts", "Roboto-Regular.ttf")); err != nil {
			return fmt.Errorf("process fonts: %w", err)
		}
		processFontDir = d
	}
	if font.UserFontDir != processFontDir {
		font.UserFontDir = processFontDir
		return font.ReloadUserFonts()
	}
	return nil
}

// OldPopulated is the content of pre-created files in the output directory of outdir ops.
var OldPopulated = []byte("OLD pre-existing file in output directory\n")

// Options for a run.
type Options struct {
	Faults         []simfs.Fault
	AfterEvent     func(r *Result, ev *simfs.Event) // called with interception suppressed
	BeforeRun      func(r *Result)                  // after S0, before activation
	AfterRun       func(r *Result)                  // after S1, before the sandbox is removed
	KeepRoot       bool
	ShortReadEvery int
	KeepData       bool
}

// Run executes cfg once.
func Run(cfg Config, opt Options) (*Result, error) {
	o := ops.Get(cfg.Op)
	if o == nil {
		return nil, fmt.Errorf("unknown op %q", cfg.Op)
	}
	root := filepath.Join(ScratchBase(), fmt.Sprintf("r%d", runCounter.Add(1)))
	if err := os.Mkdir(root, 0755); err != nil {
		return nil, err
	}
	if !opt.KeepRoot {
		defer os.RemoveAll(root)
	}
	mode := os.FileMode(cfg.OutMode)
	if mode == 0 {
		mode = 0604
	}
	if o.NeedsUserFont {
		if err := useProcessFonts(); err != nil {
			return nil, err
		}
	}
	// the sandbox is laid out by real pdfcpu calls too (a prepared input is written by pdfcpu): its
	// bytes must not depend on what the process did before
	runtime.VerifSetMapRand(cfg.MapSeed() ^ 0x5e7095e7)
	simclock.Install(cfg.MapSeed())
	defer simclock.Uninstall()
	env, err := ops.Setup(o, cfg.Rel, root, mode)
	if err != nil {
		return nil, fmt.Errorf("setup %s: %w", cfg, err)
	}
	popMode := os.FileMode(0604)
	if cfg.Rel == "populated-ro" {
		popMode = 0444
	} else if o.OutDirOp && cfg.OutMode != 0 {
		popMode = os.FileMode(cfg.OutMode)
	}
	for _, n := range cfg.Populate {
		p := filepath.Join(env.OutDir, n)
		os.MkdirAll(filepath.Dir(p), 0755)
		if err := os.WriteFile(p, OldPopulated, popMode); err != nil {
			return nil, err
		}
		os.Chmod(p, popMode)
	}
	os.Setenv("TMPDIR", env.Tmp)
	r := &Result{Cfg: cfg, Env: env}
	r.S0 = simfs.TakeSnap(root)
	if opt.BeforeRun != nil {
		opt.BeforeRun(r)
	}
	sim := &simfs.Sim{Root: root, Faults: opt.Faults, ShortReadEvery: opt.ShortReadEvery, KeepData: opt.KeepData}
	r.Sim = sim
	if opt.AfterEvent != nil {
		sim.AfterEvent = func(ev *simfs.Event) { opt.AfterEvent(r, ev) }
	}
	var oldwd string
	if env.Chdir != "" {
		oldwd, _ = os.Getwd()
		os.Chdir(env.Chdir)
	}
	runtime.VerifSetMapRand(cfg.MapSeed())
	simclock.Install(cfg.MapSeed() + 1)
	simfs.Activate(sim)
	func() {
		defer func() {
			if p := recover(); p != nil {
				r.Panicked = true
				r.PanicVal = p
				if _, ok := p.(simfs.InjectedPanic); ok {
					r.Injected = true
				} else {
					r.Stack = string(debug.Stack())
				}
			}
		}()
		r.Err = o.Run(env)
	}()
	r.Leaked = simfs.Deactivate()
	if oldwd != "" {
		os.Chdir(oldwd)
	}
	r.Events = sim.Events
	r.Fired = sim.Fired
	if lf := os.Getenv("VERIF_EVENTLOG"); lf != "" {
		// debug aid (determinism work): one line per run, one per event
		if f, err := os.OpenFile(lf, os.O_APPEND|os.O_CREATE|os.O_WRONLY, 0644); err == nil {
			fmt.Fprintf(f, "RUN %s faults=%v events=%d err=%v\n", cfg, opt.Faults, len(sim.Events), r.Err != nil)
			for _, e := range sim.Events {
				fmt.Fprintf(f, "  %s\n", e.String())
			}
			f.Close()
		}
	}
	r.S1 = simfs.TakeSnap(root)
	if r.Err != nil || r.Panicked {
		// classify new PDF files: complete (validates) or not; needed to tell a completed earlier
		// output from a partial one
		r.ValidPDF = map[string]bool{}
		for k, e := range r.S1 {
			if e0, old := r.S0[k]; (old && simfs.SameEntry(e0, e)) || e.Type != "file" || filepath.Ext(k) != ".pdf" {
				continue
			}
			r.ValidPDF[k] = api.ValidateFile(filepath.Join(root, k), nil) == nil
		}
	}
	if opt.AfterRun != nil {
		opt.AfterRun(r)
	}
	return r, nil
}
