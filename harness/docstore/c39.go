package docstore

import (
	"bytes"
	"crypto/sha256"
	"encoding/hex"
	"encoding/json"
	"errors"
	"fmt"
	"io"
	"math/rand/v2"
	"os"
	"path/filepath"
	"sort"
	"strings"
	"time"

	"github.com/pdfcpu/pdfcpu/pkg/api"
	"github.com/pdfcpu/pdfcpu/pkg/pdfcpu"
	"github.com/pdfcpu/pdfcpu/pkg/pdfcpu/model"
	"github.com/pdfcpu/pdfcpu/pkg/pdfcpu/types"
	"verif/core"
)

// ---------------------------------------------------------------- C39: name trees under edits
//
// The EmbeddedFiles name tree is edited through the attachment file API; after every successful
// step the file is re-read and the tree is walked *raw* (dictionaries, arrays, indirect references),
// not through pdfcpu's Node abstraction or its listing functions, which hide the structure.

var c39Names = func() []string {
	var nn []string
	for i := 0; i < 24; i++ {
		nn = append(nn, fmt.Sprintf("a%02d.txt", i)) // ascending / descending runs
	}
	for i := 0; i < 8; i++ {
		nn = append(nn, fmt.Sprintf("common_prefix_long_name_%d.bin", i))
	}
	nn = append(nn, "File.txt", "file.txt", "FILE.TXT", "fILE.txt") // case variants
	nn = append(nn, "ünï.dat", "Ärger.txt", "éclair.txt", "日本.txt", "ключ.txt", "zz top.txt", "0.txt", "~tilde.txt", "B.txt", "b.txt", "!bang.txt", "_under.txt")
	return nn
}()

type c39Model struct {
	Att map[string]string
	// Dup: names of the last step that were inserted although present. The statement asks for unique
	// keys and agreement with a sorted map, in which inserting a present key replaces its value (here:
	// by the same bytes); pdfcpu keeps the old entry and stores the new one under a derived key. Both
	// are accepted (Reconcile); the structural invariants hold either way.
	Dup []string
	// Dests name tree, edited through bookmarks: every bookmark's title is a key of the tree (its named
	// destination). BM is the flat bookmark list as set (nil = no bookmarks); NoBM marks documents that
	// come with their own destinations/outlines, on which bookmark steps are not generated.
	BM   []bmEntry
	NoBM bool
}

type bmEntry struct {
	Title string `json:"title"`
	Page  int    `json:"page"`
}

func (m *c39Model) Clone() Model {
	c := &c39Model{Att: map[string]string{}, NoBM: m.NoBM, BM: append([]bmEntry(nil), m.BM...), Dup: append([]string(nil), m.Dup...)}
	for k, v := range m.Att {
		c.Att[k] = v
	}
	return c
}

func (m *c39Model) String() string {
	var sb strings.Builder
	sb.WriteString("att={")
	for _, k := range sortedKeys(m.Att) {
		fmt.Fprintf(&sb, "%q:%s ", k, m.Att[k][:8])
	}
	sb.WriteString("}")
	if !m.NoBM {
		sb.WriteString(" bm=[")
		for _, b := range m.BM {
			fmt.Fprintf(&sb, "%q@%d ", b.Title, b.Page)
		}
		sb.WriteString("]")
	}
	return sb.String()
}

func (m *c39Model) Apply(s Step) bool {
	var a c35Args
	json.Unmarshal(s.Args, &a)
	switch s.Op {
	case "bm-set":
		var bb []bmEntry
		json.Unmarshal(s.Args, &struct{ BM *[]bmEntry }{&bb})
		if len(bb) == 0 {
			return false
		}
		m.BM = bb
		return true
	case "bm-remove":
		if len(m.BM) == 0 {
			return false
		}
		m.BM = nil
		return true
	case "merge-in":
		// another document's EmbeddedFiles tree is merged into this one: its names are inserted, those
		// that are present already stay as they are (same bytes under the same name here)
		if len(a.List) == 0 {
			return false
		}
		m.Dup = nil
		for _, n := range a.List {
			h := sha256.Sum256(attContent(n))
			m.Att[n] = hex.EncodeToString(h[:])
		}
		return true
	case "att-add":
		if len(a.List) == 0 {
			return false
		}
		m.Dup = nil
		for _, n := range a.List {
			if _, ok := m.Att[n]; ok {
				m.Dup = append(m.Dup, n)
			}
			h := sha256.Sum256(attContent(n))
			m.Att[n] = hex.EncodeToString(h[:])
		}
		return true
	case "att-session":
		// several insertions and removals on one in-memory document, written once
		if len(a.List) == 0 {
			return false
		}
		m.Dup = nil
		for _, o := range a.List {
			n := o[1:]
			_, present := m.Att[n]
			switch {
			case o[0] == '+' && !present:
				h := sha256.Sum256(attContent(n))
				m.Att[n] = hex.EncodeToString(h[:])
			case o[0] == '-' && present:
				delete(m.Att, n)
			default:
				return false
			}
		}
		return true
	case "att-remove":
		m.Dup = nil
		if len(a.List) == 0 {
			if len(m.Att) == 0 {
				return false
			}
			m.Att = map[string]string{}
			return true
		}
		for _, n := range a.List {
			if _, ok := m.Att[n]; !ok {
				return false
			}
		}
		for _, n := range a.List {
			delete(m.Att, n)
		}
		return true
	}
	return false
}

type c39Store struct{}

func (c39Store) ID() string { return "C39" }

// Docs: no name tree; a prebuilt multi-level EmbeddedFiles tree; a document that also carries a
// Dests name tree as a bystander.
func (c39Store) Docs() []string {
	// wide:MxLxN: generated three-level tree with M intermediate nodes of L leaves of N names each
	return []string{"zineTest.pdf", "prebuilt:zineTest.pdf", "wide:2x3x1", "wide:3x4x2", "adobe_errata.pdf", "wide:2x5x3"} // quick uses the first four

}

func (s c39Store) Materialise(doc, path string) error {
	if m, l, n, ok := wideShape(doc); ok {
		b, _ := genWideTreeDoc(m, l, n)
		return os.WriteFile(path, b, 0644)
	}
	pre := strings.HasPrefix(doc, "prebuilt:")
	doc = strings.TrimPrefix(doc, "prebuilt:")
	b, err := os.ReadFile(filepath.Join("/repo/pkg/testdata", doc))
	if err != nil {
		return err
	}
	if err := os.WriteFile(path, b, 0644); err != nil {
		return err
	}
	if pre {
		// 14 attachments added in an adversarial order give a 3-4 level tree to start from
		dir, err := mkScratch()
		if err != nil {
			return err
		}
		defer rmScratch(dir)
		for _, n := range []string{"p07", "p01", "p13", "p03", "p11", "p05", "p09", "p02", "p12", "p04", "p10", "p06", "p08", "p00"} {
			f := filepath.Join(dir, n+".pre")
			os.WriteFile(f, attContent(n+".pre"), 0644)
			if err := api.AddAttachmentsFile(path, "", []string{f}, false, dsConf()); err != nil {
				return fmt.Errorf("prebuild: %w", err)
			}
		}
	}
	return nil
}

func (c39Store) SetupAux(aux string) error {
	for _, n := range c39Names {
		if err := os.WriteFile(filepath.Join(aux, n), attContent(n), 0644); err != nil {
			return err
		}
	}
	return nil
}

func (c39Store) observe(path string) (*c39Model, error) {
	m := &c39Model{Att: map[string]string{}}
	b, err := os.ReadFile(path)
	if err != nil {
		return nil, err
	}
	bms, err := api.Bookmarks(bytes.NewReader(b), dsConf())
	if err != nil && !errors.Is(err, pdfcpu.ErrNoBookmarks) && !strings.Contains(err.Error(), "no outlines") && !strings.Contains(err.Error(), "no bookmarks") {
		return nil, fmt.Errorf("list bookmarks: %w", err)
	}
	for _, bm := range bms {
		t := bm.Title
		if len(bm.Kids) > 0 {
			t += "{+kids}" // never set by a step: shows as a mismatch where bookmarks are observed at all
		}
		m.BM = append(m.BM, bmEntry{Title: t, Page: bm.PageFrom})
	}
	listed, err := api.Attachments(bytes.NewReader(b), dsConf())
	if err != nil {
		return nil, fmt.Errorf("list attachments: %w", err)
	}
	if len(listed) == 0 {
		return m, nil
	}
	aa, err := api.ExtractAttachmentsRaw(bytes.NewReader(b), "", nil, dsConf())
	if err != nil {
		return nil, fmt.Errorf("extract attachments: %w", err)
	}
	if len(aa) != len(listed) {
		return nil, fmt.Errorf("%d attachments listed, %d extracted", len(listed), len(aa))
	}
	for _, a := range aa {
		data, err := io.ReadAll(a)
		if err != nil {
			return nil, err
		}
		h := sha256.Sum256(data)
		if _, dup := m.Att[a.ID]; dup {
			return nil, fmt.Errorf("attachment id %q listed twice", a.ID)
		}
		m.Att[a.ID] = hex.EncodeToString(h[:])
	}
	return m, nil
}

func (c39Store) Valid(mm Model, s Step) bool {
	m := mm.(*c39Model)
	var a c35Args
	json.Unmarshal(s.Args, &a)
	switch s.Op {
	case "bm-set":
		return !m.NoBM
	case "bm-remove":
		return !m.NoBM && len(m.BM) > 0
	case "att-add":
		// a present name may be inserted again, but not together with faults and not a derived name
		for _, n := range a.List {
			if _, ok := m.Att[n]; ok && (s.Fault != nil || strings.Contains(n, "\x01")) {
				return false
			}
		}
	case "att-session":
		return m.Clone().Apply(s)
	case "att-remove":
		present := 0
		for _, n := range a.List {
			if _, ok := m.Att[n]; ok {
				present++
			}
		}
		return (len(a.List) == 0 && len(m.Att) > 0) || (len(a.List) > 0 && (present == 0 || present == len(a.List)))
	}
	return true
}

// Reconcile: for each name inserted although present, a key derived from it (the name followed by
// further bytes) that holds the same bytes may have appeared; the model adopts it. Nothing else.
func (s c39Store) Reconcile(mm Model, path string) {
	m := mm.(*c39Model)
	if len(m.Dup) == 0 {
		return
	}
	obs, err := s.observe(path)
	if err != nil {
		return
	}
	for _, n := range m.Dup {
		for _, k := range sortedKeys(obs.Att) {
			if _, known := m.Att[k]; !known && strings.HasPrefix(k, n) && obs.Att[k] == m.Att[n] {
				m.Att[k] = obs.Att[k]
				break
			}
		}
	}
	m.Dup = nil
}

func (s c39Store) NewModel(path string) (Model, error) {
	m, err := s.newModel(path)
	if err != nil {
		return nil, err
	}
	cm := m.(*c39Model)
	// documents that come with destinations or outlines of their own are not edited through bookmarks
	if t, err := walkTree(path, "Dests"); err != nil || t != nil || len(cm.BM) > 0 {
		cm.NoBM = true
		cm.BM = nil
	}
	return cm, nil
}

func (s c39Store) newModel(path string) (Model, error) {
	// generated documents: the model is the generator's own description, not what pdfcpu reads
	if b, err := os.ReadFile(path); err == nil {
		for _, d := range s.Docs() {
			if m, l, n, ok := wideShape(d); ok {
				if gb, truth := genWideTreeDoc(m, l, n); bytes.Equal(gb, b) {
					return &c39Model{Att: truth}, nil
				}
			}
		}
	}
	return s.observe(path)
}

// Equivalent: documents with destinations/outlines of their own are not observed through bookmarks.
func (c39Store) Equivalent(obs, want string) bool {
	if !strings.Contains(want, " bm=[") {
		if i := strings.Index(obs, " bm=["); i >= 0 {
			return obs[:i] == want
		}
	}
	return false
}

func (c39Store) Families() []string { return []string{"att", "bm"} }
func (c39Store) Family(op string) string {
	if strings.HasPrefix(op, "bm-") {
		return "bm"
	}
	return "att"
}

var c39Titles = []string{"Chapter", "Chapter", "Chapter 1", "Chapter 10", "Chapter 2", "Appendix", "appendix", "Ünïcode Çhapter", "目次", "A", "AA", "AAA", "B", "Z", "Intro", "Intro", "Summary", "zz top", "(paren)", "a/b#c"}

func (s c39Store) Observe(path string) (string, error) {
	m, err := s.observe(path)
	if err != nil {
		return "", err
	}
	return m.String(), nil
}

func (c39Store) Gen(rng *rand.Rand, mm Model, aux string) Step {
	m := mm.(*c39Model)
	var free []string
	present := sortedKeys(m.Att) // incl. the names the starting document came with
	for _, n := range c39Names {
		if _, ok := m.Att[n]; !ok {
			free = append(free, n)
		}
	}
	for k := range m.Att {
		// names that sort between the keys of a generated wide tree
		if strings.HasPrefix(k, "w") && strings.HasSuffix(k, ".dat") && len(k) == 8 {
			var i int
			fmt.Sscanf(k, "w%03d.dat", &i)
			if nb := fmt.Sprintf("w%03d.dat", i+1); m.Att[nb] == "" {
				free = append(free, nb)
			}
		}
	}
	sort.Strings(free)
	for {
		if !m.NoBM && rng.IntN(5) == 0 {
			// the Dests name tree: bookmarks whose titles become its keys (duplicates, prefixes, any order)
			if len(m.BM) > 0 && rng.IntN(4) == 0 {
				return Step{Op: "bm-remove"}
			}
			n := 1 + rng.IntN(12)
			var bb []bmEntry
			page := 1
			for i := 0; i < n; i++ {
				if page == 1 && rng.IntN(3) == 0 {
					page = 2
				}
				bb = append(bb, bmEntry{Title: c39Titles[rng.IntN(len(c39Titles))], Page: page})
			}
			b, _ := json.Marshal(struct{ BM []bmEntry }{bb})
			return Step{Op: "bm-set", Args: b, NoFault: true}
		}
		if rng.IntN(12) == 0 {
			// merge: names of another producer's tree, some of them present here (every position: maxima
			// and minima of subtrees included), some new
			var l []string
			seen := map[string]bool{}
			for i := 0; i < 1+rng.IntN(6); i++ {
				var k string
				if len(present) > 0 && rng.IntN(2) == 0 {
					k = present[rng.IntN(len(present))]
				} else if len(free) > 0 {
					k = free[rng.IntN(len(free))]
				}
				if k != "" && !seen[k] && !strings.Contains(k, "\x01") {
					seen[k] = true
					l = append(l, k)
				}
			}
			if len(l) > 0 {
				sort.Strings(l)
				return step("merge-in", c35Args{List: l, Val: fmt.Sprintf("%dx%d", 1+rng.IntN(3), 1+rng.IntN(3))})
			}
		}
		if rng.IntN(7) == 0 && len(free) > 0 {
			// one session through the context API: insertions and removals interleaved on the same
			// in-memory tree (nodes split and collapse before any of them has been written)
			cur := map[string]bool{}
			for _, k := range present {
				cur[k] = true
			}
			var ops, added []string
			fr := append([]string{}, free...)
			if rng.IntN(2) == 0 {
				rng.Shuffle(len(fr), func(i, j int) { fr[i], fr[j] = fr[j], fr[i] })
			}
			for i, n := 0, 2+rng.IntN(9); i < n; i++ {
				var have []string
				for k := range cur {
					if !strings.Contains(k, "\x01") {
						have = append(have, k)
					}
				}
				sort.Strings(have)
				if len(have) > 0 && (len(fr) == 0 || rng.IntN(5) < 2) {
					var k string
					switch r := rng.IntN(4); {
					case r == 0:
						k = have[0]
					case r == 1:
						k = have[len(have)-1]
					case r == 2 && len(added) > 0:
						k = added[len(added)-1] // what this session inserted last
						if !cur[k] {
							k = have[rng.IntN(len(have))]
						}
					default:
						k = have[rng.IntN(len(have))]
					}
					ops = append(ops, "-"+k)
					delete(cur, k)
				} else if len(fr) > 0 {
					k := fr[0]
					fr = fr[1:]
					ops = append(ops, "+"+k)
					added = append(added, k)
					cur[k] = true
				}
			}
			if len(ops) > 1 {
				st := step("att-session", c35Args{List: ops})
				st.NoFault = true
				return st
			}
		}
		switch r := rng.IntN(10); {
		case r == 0 && len(present) > 0 && rng.IntN(2) == 0:
			// duplicate key: the largest, the smallest or any present name is inserted again
			var cand []string
			for _, k := range present {
				if !strings.Contains(k, "\x01") {
					cand = append(cand, k)
				}
			}
			if len(cand) == 0 {
				continue
			}
			k := cand[len(cand)-1]
			switch rng.IntN(4) {
			case 0:
				k = cand[0]
			case 1:
				k = cand[rng.IntN(len(cand))]
			}
			st := step("att-add", c35Args{List: []string{k}})
			st.NoFault = true
			return st
		case r < 5 && len(free) > 0:
			// adds: random, or ascending / descending runs, or a neighbour of a present key
			k := 1 + rng.IntN(3)
			switch rng.IntN(3) {
			case 0:
				return step("att-add", c35Args{List: pick(rng, free, k)})
			case 1:
				sort.Strings(free)
				if k > len(free) {
					k = len(free)
				}
				return step("att-add", c35Args{List: append([]string{}, free[:k]...)})
			default:
				sort.Strings(free)
				if k > len(free) {
					k = len(free)
				}
				l := append([]string{}, free[len(free)-k:]...)
				sort.Sort(sort.Reverse(sort.StringSlice(l)))
				return step("att-add", c35Args{List: l})
			}
		case r < 9 && len(present) > 0:
			k := 1 + rng.IntN(3)
			switch rng.IntN(3) {
			case 0:
				return step("att-remove", c35Args{List: pick(rng, present, k)})
			case 1: // smallest keys first: empties leaves from the left
				sort.Strings(present)
				if k > len(present) {
					k = len(present)
				}
				return step("att-remove", c35Args{List: append([]string{}, present[:k]...)})
			default:
				sort.Strings(present)
				if k > len(present) {
					k = len(present)
				}
				return step("att-remove", c35Args{List: append([]string{}, present[len(present)-k:]...)})
			}
		case r == 9:
			if len(free) > 0 && rng.IntN(3) == 0 {
				return step("att-remove", c35Args{List: pick(rng, free, 1)}) // absent: must be rejected
			}
			if len(present) > 0 && rng.IntN(6) == 0 {
				return step("att-remove", c35Args{}) // remove all
			}
		}
	}
}

func (c39Store) Exec(s Step, path, aux string) error {
	var a c35Args
	json.Unmarshal(s.Args, &a)
	switch s.Op {
	case "bm-set":
		var bb []bmEntry
		json.Unmarshal(s.Args, &struct{ BM *[]bmEntry }{&bb})
		var bms []pdfcpu.Bookmark
		for _, b := range bb {
			bms = append(bms, pdfcpu.Bookmark{Title: b.Title, PageFrom: b.Page})
		}
		return api.AddBookmarksFile(path, "", bms, true, dsConf())
	case "bm-remove":
		return api.RemoveBookmarksFile(path, "", dsConf())
	case "merge-in":
		l, n := 2, 2
		fmt.Sscanf(a.Val, "%dx%d", &l, &n)
		src := filepath.Join(aux, "merge-src.pdf")
		if err := os.WriteFile(src, genTreeDocKeys(a.List, l, n), 0644); err != nil {
			return fmt.Errorf("harness: %w", err)
		}
		conf := dsConf()
		conf.CreateBookmarks = false
		return api.MergeAppendFile([]string{src}, path, false, conf)
	case "att-add":
		var files []string
		for _, n := range a.List {
			f := filepath.Join(aux, n)
			if _, err := os.Stat(f); err != nil {
				if err := os.WriteFile(f, attContent(n), 0644); err != nil {
					return fmt.Errorf("harness: %w", err)
				}
			}
			files = append(files, f)
		}
		return api.AddAttachmentsFile(path, "", files, false, dsConf())
	case "att-session":
		return attSession(path, a.List)
	case "att-remove":
		return api.RemoveAttachmentsFile(path, "", a.List, dsConf())
	}
	return fmt.Errorf("harness: unknown op %s", s.Op)
}

// ShrinkStep proposes the step with one list element dropped (sessions and multi-name steps).
func (c39Store) ShrinkStep(s Step) []Step {
	if s.Op != "att-session" && s.Op != "att-add" && s.Op != "att-remove" {
		return nil
	}
	var a c35Args
	json.Unmarshal(s.Args, &a)
	if len(a.List) < 2 {
		return nil
	}
	var out []Step
	for i := len(a.List) - 1; i >= 0; i-- {
		b := a
		b.List = append(append([]string{}, a.List[:i]...), a.List[i+1:]...)
		c := step(s.Op, b)
		c.NoFault, c.Fault = s.NoFault, s.Fault
		out = append(out, c)
	}
	return out
}

// attSession applies "+name" / "-name" operations to one in-memory document through the context
// API (the calls AddAttachmentsFile and RemoveAttachmentsFile make, without a write in between) and
// writes the document once.
func attSession(path string, ops []string) error {
	b, err := os.ReadFile(path)
	if err != nil {
		return fmt.Errorf("harness: %w", err)
	}
	conf := dsConf()
	conf.Cmd = model.ADDATTACHMENTS
	ctx, err := api.ReadValidateAndOptimize(bytes.NewReader(b), conf)
	if err != nil {
		return err
	}
	mt := time.Now()
	for _, o := range ops {
		n := o[1:]
		if o[0] == '+' {
			if err := ctx.AddAttachment(model.Attachment{Reader: bytes.NewReader(attContent(n)), ID: n, ModTime: &mt}, false); err != nil {
				return fmt.Errorf("session %s: %w", o, err)
			}
			continue
		}
		ok, err := ctx.RemoveAttachment(model.Attachment{ID: n})
		if err != nil {
			return fmt.Errorf("session %s: %w", o, err)
		}
		if !ok {
			return fmt.Errorf("session %s: not removed", o)
		}
	}
	var out bytes.Buffer
	if err := api.Write(ctx, &out, conf); err != nil {
		return err
	}
	tmp := path + ".session"
	if err := os.WriteFile(tmp, out.Bytes(), 0644); err != nil {
		return fmt.Errorf("harness: %w", err)
	}
	if err := os.Rename(tmp, path); err != nil {
		return fmt.Errorf("harness: %w", err)
	}
	return nil
}

// ---- raw walker

type rawTree struct {
	keys   []string
	levels int
	nodes  int
}

func keyBytes(x *model.XRefTable, o types.Object) (string, error) {
	o, err := x.Dereference(o)
	if err != nil {
		return "", err
	}
	switch v := o.(type) {
	case types.StringLiteral:
		b, err := types.Unescape(v.Value())
		if err != nil {
			return "", err
		}
		return string(b), nil
	case types.HexLiteral:
		b, err := v.Bytes()
		if err != nil {
			return "", err
		}
		return string(b), nil
	}
	return "", fmt.Errorf("key is %T, not a string", o)
}

// walkNode checks one node and returns the keys below it in document order.
func walkNode(x *model.XRefTable, o types.Object, root bool, depth int, t *rawTree) ([]string, error) {
	if depth > 20 {
		return nil, fmt.Errorf("tree deeper than 20 levels (cycle?)")
	}
	d, err := x.DereferenceDict(o)
	if err != nil {
		return nil, fmt.Errorf("node: %w", err)
	}
	if d == nil {
		return nil, fmt.Errorf("node is null (dangling reference %v)", o)
	}
	t.nodes++
	if depth+1 > t.levels {
		t.levels = depth + 1
	}
	_, hasKids := d.Find("Kids")
	_, hasNames := d.Find("Names")
	lim, hasLimits := d.Find("Limits")
	if hasKids && hasNames {
		return nil, fmt.Errorf("node has both Kids and Names")
	}
	if !hasKids && !hasNames {
		return nil, fmt.Errorf("node has neither Kids nor Names")
	}
	if root && hasLimits {
		return nil, fmt.Errorf("root node has Limits")
	}
	if !root && !hasLimits {
		return nil, fmt.Errorf("non-root node without Limits")
	}
	var keys []string
	if hasNames {
		a, err := x.DereferenceArray(d["Names"])
		if err != nil {
			return nil, fmt.Errorf("Names: %w", err)
		}
		if len(a)%2 != 0 {
			return nil, fmt.Errorf("Names array has odd length %d", len(a))
		}
		if len(a) == 0 && !root {
			return nil, fmt.Errorf("non-root leaf is empty")
		}
		for i := 0; i < len(a); i += 2 {
			k, err := keyBytes(x, a[i])
			if err != nil {
				return nil, fmt.Errorf("Names[%d]: %w", i, err)
			}
			v, err := x.Dereference(a[i+1])
			if err != nil || v == nil {
				return nil, fmt.Errorf("value of key %q is missing (dangling reference): %v", k, err)
			}
			keys = append(keys, k)
		}
	} else {
		a, err := x.DereferenceArray(d["Kids"])
		if err != nil {
			return nil, fmt.Errorf("Kids: %w", err)
		}
		if len(a) == 0 {
			return nil, fmt.Errorf("intermediate node without kids")
		}
		for i, kid := range a {
			if _, ok := kid.(types.IndirectRef); !ok {
				return nil, fmt.Errorf("Kids[%d] is not an indirect reference", i)
			}
			kk, err := walkNode(x, kid, false, depth+1, t)
			if err != nil {
				return nil, fmt.Errorf("kid %d: %w", i, err)
			}
			keys = append(keys, kk...)
		}
	}
	if hasLimits {
		la, err := x.DereferenceArray(lim)
		if err != nil || len(la) != 2 {
			return nil, fmt.Errorf("Limits is not an array of two")
		}
		lo, err1 := keyBytes(x, la[0])
		hi, err2 := keyBytes(x, la[1])
		if err1 != nil || err2 != nil {
			return nil, fmt.Errorf("Limits entries are not strings")
		}
		if len(keys) == 0 {
			return nil, fmt.Errorf("node with Limits has no keys")
		}
		if lo != keys[0] || hi != keys[len(keys)-1] {
			return nil, fmt.Errorf("Limits [%q %q] do not match the keys below the node [%q .. %q]", lo, hi, keys[0], keys[len(keys)-1])
		}
	}
	return keys, nil
}

func walkTree(path, name string) (*rawTree, error) {
	b, err := os.ReadFile(path)
	if err != nil {
		return nil, err
	}
	conf := dsConf()
	conf.ValidationMode = model.ValidationRelaxed
	ctx, err := api.ReadContext(bytes.NewReader(b), conf)
	if err != nil {
		return nil, fmt.Errorf("read: %w", err)
	}
	x := ctx.XRefTable
	cat, err := x.Catalog()
	if err != nil {
		return nil, err
	}
	no, ok := cat.Find("Names")
	if !ok {
		return nil, nil
	}
	nd, err := x.DereferenceDict(no)
	if err != nil || nd == nil {
		return nil, fmt.Errorf("catalog Names: %v", err)
	}
	to, ok := nd.Find(name)
	if !ok {
		return nil, nil
	}
	t := &rawTree{}
	keys, err := walkNode(x, to, true, 0, t)
	if err != nil {
		return nil, fmt.Errorf("%s name tree: %w", name, err)
	}
	t.keys = keys
	for i := 1; i < len(keys); i++ {
		if keys[i-1] >= keys[i] {
			return nil, fmt.Errorf("%s name tree: keys not strictly ascending in byte order: %q then %q", name, keys[i-1], keys[i])
		}
	}
	return t, nil
}

var destsDigest = map[string]string{}

func (c39Store) Structural(path string, mm Model) error {
	m := mm.(*c39Model)
	t, err := walkTree(path, "EmbeddedFiles")
	if err != nil {
		return err
	}
	var got []string
	if t != nil {
		got = t.keys
	}
	want := sortedKeys(m.Att)
	// keys are stored as given (UTF-8 file names); lookups must agree with the sorted map
	if len(got) != len(want) {
		return fmt.Errorf("raw tree holds %d keys %q, the model %d %q", len(got), got, len(want), want)
	}
	sort.Strings(want) // byte order
	for i := range want {
		if got[i] != want[i] {
			return fmt.Errorf("raw tree key %d is %q, the sorted map has %q", i, got[i], want[i])
		}
	}
	// the Dests tree
	d, err := walkTree(path, "Dests")
	if err != nil {
		return fmt.Errorf("Dests: %w", err)
	}
	if !m.NoBM {
		// every bookmark title is a key; a title that occurs k times accounts for at most k keys, the
		// additional ones derived from it (title + suffix); nothing else is in the tree
		var keys []string
		if d != nil {
			keys = d.keys
		}
		count := map[string]int{}
		for _, b := range m.BM {
			count[b.Title]++
		}
		have := map[string]bool{}
		for _, k := range keys {
			have[k] = true
		}
		for t := range count {
			if !have[t] {
				return fmt.Errorf("Dests name tree has no key for bookmark title %q (keys %q)", t, keys)
			}
		}
		if len(keys) > len(m.BM) {
			return fmt.Errorf("Dests name tree holds %d keys %q for %d bookmarks", len(keys), keys, len(m.BM))
		}
		used := map[string]int{}
		for _, k := range keys {
			if _, ok := count[k]; ok {
				used[k]++
				continue
			}
			owner := ""
			for t, c := range count {
				if c > 1 && strings.HasPrefix(k, t) && len(t) > len(owner) {
					owner = t
				}
			}
			if owner == "" {
				return fmt.Errorf("Dests name tree holds key %q, which no bookmark title accounts for (titles %v)", k, count)
			}
			used[owner]++
		}
		for t, u := range used {
			if u > count[t] {
				return fmt.Errorf("Dests name tree holds %d keys for title %q, which occurs %d times", u, t, count[t])
			}
		}
		return nil
	}
	if d != nil {
		h := sha256.Sum256([]byte(strings.Join(d.keys, "\x00")))
		dg := hex.EncodeToString(h[:8])
		key := fmt.Sprint(len(d.keys))
		if prev, ok := destsDigest[key]; ok && prev != dg {
			return fmt.Errorf("bystander Dests name tree changed (%d keys)", len(d.keys))
		}
		destsDigest[key] = dg
	}
	return nil
}

func init() {
	core.Register(histProp{id: "C39", store: c39Store{}, maxLen: 60, quickN: 12, quickDocs: 4, thoroughN: 300,
		rule:        "seeded histories of up to 60 attachment add/remove steps (1-3 names per step; random, ascending and descending runs, common-prefix, case-variant and non-ASCII names; removals from the left edge, right edge and random; removals of absent names; remove-all; re-insertion of the largest, smallest or a random present key; one step in seven is a session of 2-10 interleaved insertions and removals on one in-memory document through the context API with a single write) through the in-place file API, starting from a document without a name tree, from a prebuilt 3-4 level EmbeddedFiles tree, from three-level trees with fan-out 3 to 5 and 1 to 3 names per leaf written by an independent generator (the shape another producer may write; their names are removed and names sorting between them are inserted), and from a document that also has a Dests name tree. Between the attachment steps the **Dests** name tree is edited through bookmarks: bm-set replaces all bookmarks by 1-12 new ones whose titles (duplicates, common prefixes, case variants, non-ASCII) become keys of the tree - pdfcpu removes the old keys one by one and inserts the new ones - and bm-remove drops them. After every successful step the re-read file is walked raw (both trees): keys strictly ascending in byte order and unique, every non-root node's Limits equal to [min,max] of the keys below it, root without Limits, no node with both or neither of Kids/Names, no dangling value or kid reference, key set equal to the model's sorted map, bystander Dests tree unchanged; listing and extracted bytes equal the model. Half of the batches inject faults/crashes like C35. Distinct by (document, step sequence); non-trivial when a step succeeded.",
		assumptions: []string{"keys are compared in byte order of the stored strings; only names whose stored form is their UTF-8 file name are used", "inserting a present key: a sorted map replaces the value (here by the same bytes), pdfcpu keeps the entry and stores the new one under a derived key (name + suffix); both outcomes are accepted, everything else (uniqueness, order, limits, all other keys) is checked as usual; such steps carry no injected fault"}})
}
