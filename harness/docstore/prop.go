package docstore

import (
	"encoding/json"
	"fmt"
	"math/rand/v2"
	"strings"

	"verif/core"
)

// histProp adapts a Store to core.Property.
type histProp struct {
	id          string
	store       Store
	maxLen      int
	quickDocs   int // number of starting documents used in quick (0 = all)
	quickN      int // histories per (doc, faulty) in quick
	thoroughN   int
	rule        string
	assumptions []string
}

func (p histProp) ID() string    { return p.id }
func (p histProp) Level() string { return "exploration" }
func (p histProp) Rule() string  { return p.rule }
func (p histProp) Assumptions() []string {
	return append([]string{
		"observation goes through pdfcpu's own reader and listing API (trusted base of the oracle)",
		"fault-free and fault-injecting histories are separate configurations; under an injected fault a step may fail (file byte-identical) or succeed, never change the file and fail; a crash snapshot must read back as the model state before or after the step",
	}, p.assumptions...)
}
func (p histProp) RealVsStub() map[string]string {
	return map[string]string{"pdfcpu file-based API (in-place)": "real, unmodified", "document store": "a real PDF file in a tmpfs sandbox", "faults/crashes": "simfs (errno, short write, full disk, panic at writer data events, crash snapshot after the n-th mutating call of a step)", "reference model": "small executable model in the harness, stated from the property text and ISO 32000"}
}

// HistUnit is a batch of histories.
type HistUnit struct {
	Doc    string `json:"doc"`
	Faulty bool   `json:"faulty"`
	Seed   uint64 `json:"seed"`
	N      int    `json:"n"`
	MaxLen int    `json:"max_len"`
}

func (p histProp) Units(tier string, seed int64) ([]core.Unit, error) {
	var units []core.Unit
	rng := rand.New(rand.NewPCG(uint64(seed), 0xD0C5))
	n := p.quickN
	if tier != "quick" {
		n = p.thoroughN
	}
	batch := 10
	if p.maxLen > 20 {
		batch = 4
	}
	docs := p.store.Docs()
	if tier == "quick" && p.quickDocs > 0 && len(docs) > p.quickDocs {
		docs = docs[:p.quickDocs]
	}
	for _, doc := range docs {
		for _, faulty := range []bool{false, true} {
			for done := 0; done < n; done += batch {
				k := batch
				if n-done < k {
					k = n - done
				}
				u := HistUnit{Doc: doc, Faulty: faulty, Seed: rng.Uint64(), N: k, MaxLen: p.maxLen}
				b, _ := json.Marshal(u)
				units = append(units, b)
			}
		}
	}
	return units, nil
}

var faultKinds = []string{"ERR", "ERR", "PANIC", "SHORTWRITE", "ENOSPC_FROM", "CRASH", "CRASH", "CRASH"}

// Swarmer is implemented by stores whose step alphabet falls into families. Two histories out of
// three are then drawn from a random subset of one or two families only (swarm testing: a history
// that spends all its steps on one kind of state reaches deeper sequences of that kind - three adds
// and the removal of the middle one - than a uniform mix of everything ever does).
type Swarmer interface {
	Families() []string
	Family(op string) string
}

// generate draws one history from rng; the model is only used to bias the generator.
func (p histProp) generate(rng *rand.Rand, doc string, faulty bool, maxLen int, m Model, aux string) History {
	h := History{Doc: doc, MapSalt: rng.Uint64()}
	n := 1 + rng.IntN(maxLen)
	m = m.Clone()
	var only map[string]bool
	sw, _ := p.store.(Swarmer)
	if sw != nil && rng.IntN(3) != 0 {
		ff := sw.Families()
		only = map[string]bool{ff[rng.IntN(len(ff))]: true}
		if rng.IntN(2) == 0 {
			only[ff[rng.IntN(len(ff))]] = true
		}
		if n < maxLen && rng.IntN(2) == 0 {
			n = maxLen/2 + 1 + rng.IntN(maxLen-maxLen/2) // focused histories tend to be long
		}
	}
	for i := 0; i < n; i++ {
		s := p.store.Gen(rng, m, aux)
		for try := 0; only != nil && !only[sw.Family(s.Op)] && try < 400; try++ {
			s = p.store.Gen(rng, m, aux)
		}
		if faulty && rng.IntN(4) == 0 && !s.NoFault {
			s.Fault = &StepFault{Kind: faultKinds[rng.IntN(len(faultKinds))], N: 1 + rng.IntN(40)}
		}
		m.Apply(s)
		h.Steps = append(h.Steps, s)
	}
	return h
}

func (p histProp) RunUnit(raw core.Unit, tier string, seed int64) core.UnitResult {
	var u HistUnit
	res := core.UnitResult{FaultFired: map[string]int{}, EventsSeen: map[string]int{}, Probes: map[string]int{}}
	if err := json.Unmarshal(raw, &u); err != nil {
		res.Trouble = err.Error()
		return res
	}
	rng := rand.New(rand.NewPCG(u.Seed, 0x35))
	m0, err := p.initialModel(u.Doc)
	if err != nil {
		res.Trouble = err.Error()
		return res
	}
	for i := 0; i < u.N; i++ {
		h := p.generate(rng, u.Doc, u.Faulty, u.MaxLen, m0, "")
		v, st, err := Run(p.store, h)
		if err != nil {
			res.Trouble = err.Error()
			return res
		}
		res.Evaluations++
		res.SimSteps += st.Events
		for k, c := range st.FaultsFired {
			res.FaultFired[k] += c
		}
		res.Probes["steps_succeeded"] += st.OK
		res.Probes["steps_rejected_by_api"] += st.Rejected
		res.Probes["crash_snapshot_read_as_before"] += st.CrashBefore
		res.Probes["crash_snapshot_read_as_after"] += st.CrashAfter
		res.Probes["fault_absorbed_step_succeeded"] += st.Absorbed
		res.Probes["steps_skipped_out_of_alphabet_after_failed_step"] += st.Skipped
		if st.OK > 0 {
			res.Nontrivial = append(res.Nontrivial, histKey(h))
		}
		if len(res.Samples) == 0 {
			res.Samples = append(res.Samples, map[string]any{"doc": h.Doc, "faulty": u.Faulty, "steps": stepStrings(h), "succeeded": st.OK, "rejected": st.Rejected, "faults_fired": st.FaultsFired})
		}
		if v != nil {
			min := Shrink(p.store, h, v.Class, 200)
			mv, _, _ := Run(p.store, min)
			if mv == nil || mv.Class != v.Class {
				min, mv = h, v
			}
			b, _ := json.Marshal(min)
			last := Step{Op: "none"}
			if mv.Step >= 0 {
				last = min.Steps[mv.Step]
			}
			sig := fmt.Sprintf("%s|%s|%s|%s", p.id, mv.Class, last.Op, faultKindOf(last))
			res.Violations = append(res.Violations, core.Violation{Property: p.id, Class: mv.Class, Signature: sig,
				Detail: fmt.Sprintf("document %s, minimised history (%d of %d steps):\n  %s\n%s", h.Doc, len(min.Steps), len(h.Steps), strings.Join(stepStrings(min), "\n  "), mv.Detail), Replay: b})
		}
	}
	return res
}

func faultKindOf(s Step) string {
	if s.Fault == nil {
		return "nofault"
	}
	return s.Fault.Kind
}

func stepStrings(h History) []string {
	var ss []string
	for _, s := range h.Steps {
		ss = append(ss, s.String())
	}
	return ss
}

func histKey(h History) string {
	return h.Doc + "|" + strings.Join(stepStrings(h), ";")
}

func (p histProp) initialModel(doc string) (Model, error) { return initialModelOf(p.store, doc) }

func (p histProp) Replay(payload json.RawMessage) ([]core.Violation, error) {
	var h History
	if err := json.Unmarshal(payload, &h); err != nil {
		return nil, err
	}
	v, _, err := Run(p.store, h)
	if err != nil {
		return nil, err
	}
	if v == nil {
		return nil, nil
	}
	return []core.Violation{{Property: p.id, Class: v.Class, Detail: fmt.Sprintf("history:\n  %s\n%s", strings.Join(stepStrings(h), "\n  "), v.Detail)}}, nil
}

func (p histProp) Minimise(v core.Violation, budget int) json.RawMessage { return nil } // done in the worker
