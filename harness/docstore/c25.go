package docstore

import (
	"encoding/json"
	"errors"
	"fmt"
	"math/rand/v2"
	"os"
	"path/filepath"
	"strings"

	"github.com/pdfcpu/pdfcpu/pkg/api"
	"github.com/pdfcpu/pdfcpu/pkg/pdfcpu"
	"github.com/pdfcpu/pdfcpu/pkg/pdfcpu/model"
	"verif/core"
)

// ---------------------------------------------------------------- C25: passwords
//
// Model from ISO 32000 and the statement, not from the code: a document is unencrypted, or has a
// user password (may be empty: opens without a password) and a non-empty owner password. Opening
// as owner needs the owner password, opening as user the user password. Changing either password
// or the permissions needs the current owner password (pdfcpu additionally wants the current user
// password; the model follows that stricter rule, which the statement allows). For revisions up
// to 4 a password is its first 32 bytes.

var pwPool = []string{"", "a", "user-pw", "owner-pw", "pässwörd ключ", "0123456789abcdefghijklmnopqrstuvwxyzABCD", "0123456789abcdefghijklmnopqrstuv", "x y", "pw", "pw ", " pw",
	// case twins: passwords are case-sensitive under every algorithm (SASLprep does not fold case)
	"USER-PW", "Pw"}

const wrongSentinel = "definitely-not-a-password-zzz"

type c25Model struct {
	Enc  bool
	AES  bool
	Key  int
	UPW  string
	OPW  string
	Perm int
}

func (m *c25Model) Clone() Model { c := *m; return &c }

func (m *c25Model) same(a, b string) bool {
	if m.Enc && (!m.AES || m.Key < 256) {
		// R <= 4: padded/truncated to 32 bytes
		if len(a) > 32 {
			a = a[:32]
		}
		if len(b) > 32 {
			b = b[:32]
		}
	}
	return a == b
}

func (m *c25Model) String() string {
	var sb strings.Builder
	fmt.Fprintf(&sb, "enc=%v ", m.Enc)
	for _, p := range append(append([]string{}, pwPool...), wrongSentinel+"2") {
		// the owner attempt is made with (user credential = sentinel, owner credential = p): for revisions
		// up to 4 an empty owner credential stands for the user credential, i.e. the sentinel
		po := p
		if p == "" && m.Enc && !(m.AES && m.Key == 256) {
			po = wrongSentinel
		}
		o, u := !m.Enc || m.same(po, m.OPW), !m.Enc || m.same(p, m.UPW)
		fmt.Fprintf(&sb, "%q:%s%s ", short(p), flag(o, "O"), flag(u, "U"))
	}
	return sb.String()
}

func short(p string) string {
	if len(p) > 12 {
		return p[:12] + fmt.Sprintf("…%d", len(p))
	}
	return p
}

func flag(b bool, s string) string {
	if b {
		return s
	}
	return "-"
}

type c25Args struct {
	AES  bool   `json:"aes,omitempty"`
	Key  int    `json:"key,omitempty"`
	UPW  string `json:"upw"`           // user password supplied / to set (encrypt)
	OPW  string `json:"opw"`           // owner password supplied / to set (encrypt)
	New  string `json:"new,omitempty"` // new password for change ops
	Perm int    `json:"perm,omitempty"`
}

func (m *c25Model) Apply(s Step) bool {
	var a c25Args
	json.Unmarshal(s.Args, &a)
	noOwner := false
	if s.Op != "encrypt" && a.OPW == "" && !(m.AES && m.Key == 256) {
		// ISO 32000 (algorithm 3): without an owner password the user password takes its place;
		// pdfcpu applies the same rule to the credentials it is given
		a.OPW = a.UPW
		noOwner = true
	}
	switch s.Op {
	case "encrypt":
		if m.Enc || a.OPW == "" {
			return false
		}
		m.Enc, m.AES, m.Key, m.UPW, m.OPW = true, a.AES, a.Key, a.UPW, a.OPW
		return true
	case "decrypt":
		if !m.Enc {
			return false
		}
		if m.same(a.OPW, m.OPW) || m.same(a.UPW, m.UPW) {
			*m = c25Model{}
			return true
		}
		return false
	case "change-upw":
		if !m.Enc || !m.same(a.OPW, m.OPW) || !m.same(a.UPW, m.UPW) {
			return false
		}
		m.UPW = a.New
		if noOwner {
			// the O entry has to be rebuilt for the new user password and no owner password was given:
			// algorithm 3 again puts the (new) user password in its place
			m.OPW = a.New
		}
		return true
	case "change-opw":
		if !m.Enc || a.New == "" || !m.same(a.OPW, m.OPW) || !m.same(a.UPW, m.UPW) {
			return false
		}
		m.OPW = a.New
		return true
	case "set-perms":
		if !m.Enc || !m.same(a.OPW, m.OPW) || !m.same(a.UPW, m.UPW) {
			return false
		}
		m.Perm = a.Perm
		return true
	}
	return false
}

type c25Store struct{}

func (c25Store) ID() string     { return "C25" }
func (c25Store) Docs() []string { return []string{"test.pdf", "zineTest.pdf"} }
func (c25Store) Materialise(doc, path string) error {
	b, err := os.ReadFile(filepath.Join("/repo/pkg/testdata", doc))
	if err != nil {
		return err
	}
	return os.WriteFile(path, b, 0644)
}
func (c25Store) SetupAux(string) error          { return nil }
func (c25Store) Structural(string, Model) error { return nil }
func (c25Store) NewModel(string) (Model, error) { return &c25Model{}, nil }

// opens: can the document be opened with these credentials? (nil, ErrWrongPassword, other)
func opens(path, upw, opw string) (bool, error) {
	conf := model.NewDefaultConfiguration()
	conf.UserPW, conf.OwnerPW = upw, opw
	conf.Cmd = model.VALIDATE
	ctx, err := pdfcpu.ReadFile(path, conf)
	if err == nil {
		if ctx == nil {
			return false, fmt.Errorf("no error and no document")
		}
		return true, nil
	}
	if ctx != nil {
		return false, fmt.Errorf("an error AND a document were returned: %v", err)
	}
	if errors.Is(err, pdfcpu.ErrWrongPassword) {
		return false, nil
	}
	return false, err
}

// C25AllModes: read with wrong credentials under every command mode (thorough tier), else a fixed sample.
var C25AllModes = os.Getenv("VERIF_TIER") == "thorough"

var c25Modes = []model.CommandMode{model.LISTINFO, model.OPTIMIZE, model.EXTRACTCONTENT, model.EXTRACTIMAGES, model.EXTRACTATTACHMENTS, model.LISTATTACHMENTS,
	model.LISTPERMISSIONS, model.ROTATE, model.DUMP, model.DECRYPT, model.CHANGEUPW, model.CHANGEOPW, model.SETPERMISSIONS, model.LISTKEYWORDS, model.EXPORTFORMFIELDS, model.VALIDATESIGNATURES, model.TRIM}

// wrongPasswordAllModes opens an encrypted document with neither of its passwords, for a range of
// command modes: no document may come back, and the error must be a refusal (wrong password, owner
// password required, or "encrypted input not supported" for the commands that never take one).
func wrongPasswordAllModes(path string) error {
	modes := c25Modes
	if C25AllModes {
		modes = nil
		for m := model.VALIDATE; m <= model.ADDSIGNATURE; m++ {
			modes = append(modes, m)
		}
	}
	for _, m := range modes {
		conf := model.NewDefaultConfiguration()
		conf.UserPW, conf.OwnerPW = wrongSentinel, wrongSentinel+"x"
		conf.Cmd = m
		ctx, err := pdfcpu.ReadFile(path, conf)
		if ctx != nil {
			return fmt.Errorf("read for command mode %d with neither password returned a document (err=%v)", m, err)
		}
		if err == nil {
			return fmt.Errorf("read for command mode %d with neither password: no error and no document", m)
		}
		if !errors.Is(err, pdfcpu.ErrWrongPassword) && !errors.Is(err, pdfcpu.ErrOwnerPasswordRequired) && !errors.Is(err, pdfcpu.ErrEncrypted) {
			return fmt.Errorf("read for command mode %d with neither password failed with another error: %w", m, err)
		}
	}
	return nil
}

func (c25Store) Observe(path string) (string, error) {
	conf := model.NewDefaultConfiguration()
	conf.Cmd = model.VALIDATE
	enc := false
	if _, err := opens(path, wrongSentinel, wrongSentinel); true {
		// encrypted iff some credential matters: probe with the sentinel
		ok, err2 := opens(path, wrongSentinel, wrongSentinel)
		if err2 != nil {
			return "", fmt.Errorf("open with wrong passwords: %w", err2)
		}
		enc = !ok
		_ = err
	}
	if enc {
		// "yields no content" holds for every way of opening the document, not only for validation: the
		// password check depends on the command the document is read for
		if err := wrongPasswordAllModes(path); err != nil {
			return "", err
		}
	}
	var sb strings.Builder
	fmt.Fprintf(&sb, "enc=%v ", enc)
	for _, p := range append(append([]string{}, pwPool...), wrongSentinel+"2") {
		o, err := opens(path, wrongSentinel, p)
		if err != nil {
			return "", fmt.Errorf("open as owner with %q: wrong-password error expected, got: %w", short(p), err)
		}
		u, err := opens(path, p, wrongSentinel)
		if err != nil {
			return "", fmt.Errorf("open as user with %q: wrong-password error expected, got: %w", short(p), err)
		}
		fmt.Fprintf(&sb, "%q:%s%s ", short(p), flag(o, "O"), flag(u, "U"))
	}
	return sb.String(), nil
}

func (c25Store) Valid(mm Model, s Step) bool {
	m := mm.(*c25Model)
	var a c25Args
	json.Unmarshal(s.Args, &a)
	switch s.Op {
	case "encrypt":
		return !m.Enc
	case "decrypt":
		return m.Enc
	default:
		// an empty owner credential is in the alphabet only where ISO 32000 defines it (revisions up to 4)
		return m.Enc && (a.OPW != "" || !(m.AES && m.Key == 256))
	}
}

func (c25Store) Gen(rng *rand.Rand, mm Model, aux string) Step {
	m := mm.(*c25Model)
	pw := func() string { return pwPool[rng.IntN(len(pwPool))] }
	nonEmpty := func() string {
		for {
			if p := pw(); p != "" {
				return p
			}
		}
	}
	// right credentials most of the time, wrong ones otherwise
	cred := func(right string) string {
		if rng.IntN(4) == 0 {
			return pw()
		}
		return right
	}
	mk := func(op string, a c25Args) Step {
		b, _ := json.Marshal(a)
		return Step{Op: op, Args: b}
	}
	if !m.Enc {
		algs := []struct {
			aes bool
			key int
		}{{false, 40}, {false, 128}, {true, 128}, {true, 256}, {true, 256}}
		al := algs[rng.IntN(len(algs))]
		u, o := pw(), nonEmpty()
		if rng.IntN(5) == 0 {
			u = o // equal passwords
		}
		return mk("encrypt", c25Args{AES: al.aes, Key: al.key, UPW: u, OPW: o})
	}
	// An empty owner credential means "use the user credential as owner credential" for revisions up
	// to 4 (ISO 32000 algorithm 3); it is generated there (often when both passwords are equal, the
	// case in which it is the right credential), and never for AES-256, where it is simply wrong.
	credO := func(right string) string {
		if !(m.AES && m.Key == 256) {
			if m.same(m.UPW, m.OPW) && rng.IntN(3) == 0 || rng.IntN(12) == 0 {
				return ""
			}
		}
		for {
			if c := cred(right); c != "" {
				return c
			}
		}
	}
	switch rng.IntN(8) {
	case 0:
		return mk("decrypt", c25Args{UPW: cred(m.UPW), OPW: cred(m.OPW)})
	case 1, 2, 3:
		return mk("change-upw", c25Args{UPW: cred(m.UPW), OPW: credO(m.OPW), New: pw()})
	case 4, 5:
		return mk("change-opw", c25Args{UPW: cred(m.UPW), OPW: credO(m.OPW), New: nonEmpty()})
	default:
		perms := []int{int(model.PermissionsNone), int(model.PermissionsPrint), int(model.PermissionsAll)}
		return mk("set-perms", c25Args{UPW: cred(m.UPW), OPW: credO(m.OPW), Perm: perms[rng.IntN(len(perms))]})
	}
}

func (c25Store) Exec(s Step, path, aux string) error {
	var a c25Args
	json.Unmarshal(s.Args, &a)
	newConf := func() *model.Configuration {
		c := model.NewDefaultConfiguration()
		c.UserPW, c.OwnerPW = a.UPW, a.OPW
		return c
	}
	switch s.Op {
	case "encrypt":
		var c *model.Configuration
		if a.AES {
			c = model.NewAESConfiguration(a.UPW, a.OPW, a.Key)
		} else {
			c = model.NewRC4Configuration(a.UPW, a.OPW, a.Key)
		}
		c.Permissions = model.PermissionsAll
		return api.EncryptFile(path, "", c)
	case "decrypt":
		return api.DecryptFile(path, "", newConf())
	case "change-upw":
		return api.ChangeUserPasswordFile(path, "", a.UPW, a.New, newConf())
	case "change-opw":
		return api.ChangeOwnerPasswordFile(path, "", a.OPW, a.New, newConf())
	case "set-perms":
		c := newConf()
		c.Permissions = model.PermissionFlags(a.Perm)
		return api.SetPermissionsFile(path, "", c)
	}
	return fmt.Errorf("harness: unknown op %s", s.Op)
}

func init() {
	core.Register(histProp{id: "C25", store: c25Store{}, maxLen: 8, quickN: 60, thoroughN: 3000,
		rule: "seeded histories of 1-8 steps: encrypt (RC4-40, RC4-128, AES-128, AES-256; user password possibly empty, equal to the owner password, non-ASCII, 40 bytes long or the 32-byte prefix of that), change user password, change owner password, set permissions, decrypt - each issued with right or (one time in four) wrong credentials. After every step the file is opened as owner and as user with every password of the pool and with fresh wrong ones; each attempt must succeed or fail with the wrong-password error and yield no document, exactly as the model says. Faults/crash snapshots per step as for C35. Distinct by (document, step sequence); non-trivial when a step succeeded.",
		assumptions: []string{
			"the owner password is never empty when encrypting; for revisions up to 4 an empty owner credential means 'use the user credential' (ISO 32000 algorithm 3), also for the owner password that results from changing the user password with an empty owner credential; for AES-256 an empty owner credential is not generated for change steps",
			"pdfcpu demands the current user password in addition to the current owner password for password and permission changes; the model adopts this (stricter than the statement, not weaker)",
			"for security handler revisions up to 4 two passwords are the same if their first 32 bytes are",
		}})
}
