package docstore

import (
	"bytes"
	"crypto/sha256"
	"encoding/hex"
	"encoding/json"
	"fmt"
	"io"
	"math/rand/v2"
	"os"
	"path/filepath"
	"sort"
	"strings"

	"github.com/pdfcpu/pdfcpu/pkg/api"
	"github.com/pdfcpu/pdfcpu/pkg/pdfcpu/model"
	"verif/core"
	"verif/engine"
)

func mkScratch() (string, error) { return os.MkdirTemp(engine.ScratchBase(), "dsm-") }
func rmScratch(d string)         { os.RemoveAll(d) }

// ---------------------------------------------------------------- C35: metadata as a key/value store

var (
	// no ',' ';' and no leading/trailing blanks: the Keywords entry is one separator-joined string
	kwAlphabet = []string{"alpha", "β-Ünï cødé", "日本語 キー", "key (paren) [b]", `back\slash`, "אבג דה", "a/b#c%", "𝔘𝔫𝔦 astral", "é combining"}
	// standard Info keys (Title, Author, ...) are not "properties"; keys are PDF names
	propKeys = []string{"Project", "k2", "Ключ", "key with space", "a/b", "p(1)", "100%", "a#b"}
	propVals = []string{"v", "Ω verification", "值 二", "(paren) \\ back", "line1 line2", "𝔞 astral", "ﬁ ligature é", "#/%<>[]"}
	layouts  = []string{"SinglePage", "TwoColumnLeft", "TwoColumnRight", "TwoPageLeft", "TwoPageRight", "OneColumn"}
	modes    = []string{"UseNone", "UseOutlines", "UseThumbs", "FullScreen", "UseOC", "UseAttachments"}
	vpBools  = []string{"HideToolbar", "HideMenubar", "HideWindowUI", "FitWindow", "CenterWindow", "DisplayDocTitle"}
	attNames = []string{"a.txt", "b.bin", "ünï.dat", "with space.txt", "c.json", "Z.TXT"}
)

type c35Model struct {
	KW     map[string]bool
	Props  map[string]string
	Layout string
	Mode   string
	VP     map[string]bool // only the boolean preferences the alphabet uses; absent key = not set
	HasVP  bool
	Att    map[string]string // id -> sha256 of content
	XMP    bool              // catalog carries an XMP metadata stream
}

func (m *c35Model) Clone() Model {
	c := &c35Model{KW: map[string]bool{}, Props: map[string]string{}, VP: map[string]bool{}, Att: map[string]string{}, Layout: m.Layout, Mode: m.Mode, HasVP: m.HasVP, XMP: m.XMP}
	for k, v := range m.KW {
		c.KW[k] = v
	}
	for k, v := range m.Props {
		c.Props[k] = v
	}
	for k, v := range m.VP {
		c.VP[k] = v
	}
	for k, v := range m.Att {
		c.Att[k] = v
	}
	return c
}

func (m *c35Model) String() string {
	var sb strings.Builder
	fmt.Fprintf(&sb, "kw=%q props={", sortedKeys(m.KW))
	for _, k := range sortedKeys(m.Props) {
		fmt.Fprintf(&sb, "%q:%q ", k, m.Props[k])
	}
	fmt.Fprintf(&sb, "} layout=%s mode=%s vp={", m.Layout, m.Mode)
	for _, k := range sortedKeys(m.VP) {
		fmt.Fprintf(&sb, "%s:%v ", k, m.VP[k])
	}
	sb.WriteString("} att={")
	for _, k := range sortedKeys(m.Att) {
		fmt.Fprintf(&sb, "%q:%s ", k, m.Att[k][:8])
	}
	sb.WriteString("}")
	return sb.String()
}

type c35Args struct {
	List []string          `json:"list,omitempty"`
	Map  map[string]string `json:"map,omitempty"`
	Val  string            `json:"val,omitempty"`
	VP   map[string]bool   `json:"vp,omitempty"`
}

func attContent(name string) []byte {
	h := sha256.Sum256([]byte("attachment:" + name))
	return bytes.Repeat(h[:], 3+int(h[0])%40)
}

func (m *c35Model) Apply(s Step) bool {
	var a c35Args
	json.Unmarshal(s.Args, &a)
	switch s.Op {
	case "kw-add":
		if len(a.List) == 0 {
			return false
		}
		for _, k := range a.List {
			if strings.TrimSpace(k) == "" {
				return false
			}
		}
		for _, k := range a.List {
			m.KW[strings.TrimSpace(k)] = true
		}
		return true
	case "kw-remove":
		if len(a.List) == 0 { // remove all
			if len(m.KW) == 0 {
				return false
			}
			m.KW = map[string]bool{}
			return true
		}
		any := false
		for _, k := range a.List {
			if m.KW[k] {
				any = true
			}
		}
		if !any {
			return false
		}
		for _, k := range a.List {
			delete(m.KW, k)
		}
		return true
	case "prop-add":
		if len(a.Map) == 0 {
			return false
		}
		for k := range a.Map {
			if k == "" {
				return false
			}
		}
		for k, v := range a.Map {
			m.Props[k] = v
		}
		return true
	case "prop-remove":
		if len(a.List) == 0 {
			if len(m.Props) == 0 && !m.XMP {
				return false
			}
			m.Props = map[string]string{}
			m.XMP = false
			return true
		}
		any := false
		for _, k := range a.List {
			if _, ok := m.Props[k]; ok {
				any = true
			}
		}
		if !any {
			return false
		}
		for _, k := range a.List {
			delete(m.Props, k)
		}
		return true
	case "layout-set":
		m.Layout = a.Val
		return true
	case "layout-reset":
		m.Layout = ""
		return true
	case "mode-set":
		m.Mode = a.Val
		return true
	case "mode-reset":
		m.Mode = ""
		return true
	case "vp-set":
		if len(a.VP) == 0 {
			return false
		}
		for k, v := range a.VP {
			m.VP[k] = v
		}
		m.HasVP = true
		return true
	case "vp-reset":
		m.VP = map[string]bool{}
		m.HasVP = false
		return true
	case "att-add":
		if len(a.List) == 0 {
			return false
		}
		for _, n := range a.List {
			h := sha256.Sum256(attContent(n))
			m.Att[n] = hex.EncodeToString(h[:])
		}
		return true
	case "att-remove":
		if len(a.List) == 0 {
			if len(m.Att) == 0 {
				return false
			}
			m.Att = map[string]string{}
			return true
		}
		for _, n := range a.List {
			if _, ok := m.Att[n]; !ok {
				return false
			}
		}
		for _, n := range a.List {
			delete(m.Att, n)
		}
		return true
	}
	return false
}

type c35Store struct{}

func (c35Store) ID() string { return "C35" }
func (c35Store) Docs() []string {
	return []string{"zineTest.pdf", "test.pdf", "Walden.pdf", "testWithText.pdf"}
}
func (c35Store) Materialise(doc, path string) error {
	b, err := os.ReadFile(filepath.Join("/repo/pkg/testdata", doc))
	if err != nil {
		return err
	}
	return os.WriteFile(path, b, 0644)
}
func (c35Store) SetupAux(aux string) error {
	for _, n := range attNames {
		if err := os.WriteFile(filepath.Join(aux, n), attContent(n), 0644); err != nil {
			return err
		}
	}
	return nil
}
func (c35Store) Structural(string, Model) error { return nil }

func (c35Store) Valid(mm Model, s Step) bool {
	m := mm.(*c35Model)
	var a c35Args
	json.Unmarshal(s.Args, &a)
	switch s.Op {
	case "att-add":
		for _, n := range a.List {
			if _, ok := m.Att[n]; ok {
				return false
			}
		}
	case "att-remove":
		present := 0
		for _, n := range a.List {
			if _, ok := m.Att[n]; ok {
				present++
			}
		}
		return present == 0 || present == len(a.List)
	case "kw-remove":
		return len(a.List) > 0 || len(m.KW) > 0
	case "prop-remove":
		return len(a.List) > 0 || len(m.Props) > 0
	}
	return true
}

func dsConf() *model.Configuration { return model.NewDefaultConfiguration() }

func (s c35Store) observeModel(path string) (*c35Model, error) {
	m := &c35Model{KW: map[string]bool{}, Props: map[string]string{}, VP: map[string]bool{}, Att: map[string]string{}}
	b, err := os.ReadFile(path)
	if err != nil {
		return nil, err
	}
	rs := func() io.ReadSeeker { return bytes.NewReader(b) }
	kw, err := api.Keywords(rs(), dsConf())
	if err != nil {
		return nil, fmt.Errorf("list keywords: %w", err)
	}
	for _, k := range kw {
		m.KW[k] = true
	}
	props, err := api.Properties(rs(), dsConf())
	if err != nil {
		return nil, fmt.Errorf("list properties: %w", err)
	}
	for k, v := range props {
		m.Props[k] = v
	}
	pl, err := api.PageLayout(rs(), dsConf())
	if err != nil {
		return nil, fmt.Errorf("page layout: %w", err)
	}
	if pl != nil {
		m.Layout = pl.String()
	}
	pm, err := api.PageMode(rs(), dsConf())
	if err != nil {
		return nil, fmt.Errorf("page mode: %w", err)
	}
	if pm != nil {
		m.Mode = pm.String()
	}
	vp, _, err := api.ViewerPreferences(rs(), dsConf())
	if err != nil {
		return nil, fmt.Errorf("viewer preferences: %w", err)
	}
	if vp != nil {
		m.HasVP = true
		for name, p := range map[string]*bool{"HideToolbar": vp.HideToolbar, "HideMenubar": vp.HideMenubar, "HideWindowUI": vp.HideWindowUI, "FitWindow": vp.FitWindow, "CenterWindow": vp.CenterWindow, "DisplayDocTitle": vp.DisplayDocTitle} {
			if p != nil {
				m.VP[name] = *p
			}
		}
	}
	listed, err := api.Attachments(rs(), dsConf())
	if err != nil {
		return nil, fmt.Errorf("list attachments: %w", err)
	}
	var aa []model.Attachment
	if len(listed) > 0 {
		aa, err = api.ExtractAttachmentsRaw(rs(), "", nil, dsConf())
		if err != nil {
			return nil, fmt.Errorf("extract attachments: %w", err)
		}
		if len(aa) != len(listed) {
			return nil, fmt.Errorf("%d attachments listed, %d extracted", len(listed), len(aa))
		}
	}
	for _, a := range aa {
		data, err := io.ReadAll(a)
		if err != nil {
			return nil, fmt.Errorf("attachment %q: %w", a.ID, err)
		}
		h := sha256.Sum256(data)
		m.Att[a.ID] = hex.EncodeToString(h[:])
	}
	return m, nil
}

func (s c35Store) NewModel(path string) (Model, error) {
	m, err := s.observeModel(path)
	if err != nil {
		return nil, err
	}
	// does the catalog carry XMP metadata? (remove-all-properties also removes it and then counts as a removal)
	b, _ := os.ReadFile(path)
	ctx, err := api.ReadContext(bytes.NewReader(b), dsConf())
	if err == nil {
		if rd, err := ctx.Catalog(); err == nil {
			_, m.XMP = rd["Metadata"]
		}
	}
	return m, nil
}

func (s c35Store) Observe(path string) (string, error) {
	m, err := s.observeModel(path)
	if err != nil {
		return "", err
	}
	return m.String(), nil
}

func pick(rng *rand.Rand, from []string, n int) []string {
	idx := rng.Perm(len(from))
	var out []string
	for i := 0; i < n && i < len(from); i++ {
		out = append(out, from[idx[i]])
	}
	sort.Strings(out)
	return out
}

func step(op string, a c35Args) Step {
	b, _ := json.Marshal(a)
	return Step{Op: op, Args: b}
}

func (c35Store) Gen(rng *rand.Rand, mm Model, aux string) Step {
	m := mm.(*c35Model)
	existing := func(set []string, n int) []string {
		if len(set) == 0 {
			return nil
		}
		return pick(rng, set, n)
	}
	for {
		switch rng.IntN(16) {
		case 0, 1:
			return step("kw-add", c35Args{List: pick(rng, kwAlphabet, 1+rng.IntN(3))})
		case 2:
			if rng.IntN(3) == 0 {
				return step("kw-remove", c35Args{List: pick(rng, kwAlphabet, 1+rng.IntN(2))}) // possibly absent ones
			}
			if l := existing(sortedKeys(m.KW), 1+rng.IntN(2)); l != nil {
				return step("kw-remove", c35Args{List: l})
			}
		case 3:
			// remove-all is generated only when there is something to remove: whether an empty
			// Keywords entry counts as "something" is not part of the statement
			if rng.IntN(4) == 0 && len(m.KW) > 0 {
				return step("kw-remove", c35Args{})
			}
		case 4, 5:
			mp := map[string]string{}
			for _, k := range pick(rng, propKeys, 1+rng.IntN(2)) {
				mp[k] = propVals[rng.IntN(len(propVals))]
			}
			return step("prop-add", c35Args{Map: mp})
		case 6:
			if rng.IntN(3) == 0 {
				return step("prop-remove", c35Args{List: pick(rng, propKeys, 1+rng.IntN(2))})
			}
			if l := existing(sortedKeys(m.Props), 1+rng.IntN(2)); l != nil {
				return step("prop-remove", c35Args{List: l})
			}
		case 7:
			if rng.IntN(4) == 0 && len(m.Props) > 0 {
				return step("prop-remove", c35Args{})
			}
		case 8:
			return step("layout-set", c35Args{Val: layouts[rng.IntN(len(layouts))]})
		case 9:
			if rng.IntN(2) == 0 {
				return step("layout-reset", c35Args{})
			}
			return step("mode-reset", c35Args{})
		case 10:
			return step("mode-set", c35Args{Val: modes[rng.IntN(len(modes))]})
		case 11:
			vp := map[string]bool{}
			for _, k := range pick(rng, vpBools, 1+rng.IntN(3)) {
				vp[k] = rng.IntN(2) == 0
			}
			return step("vp-set", c35Args{VP: vp})
		case 12:
			if rng.IntN(2) == 0 {
				return step("vp-reset", c35Args{})
			}
		case 13, 14:
			// never re-add an id that is present: the statement does not say whether that replaces or duplicates
			var free []string
			for _, n := range attNames {
				if _, ok := m.Att[n]; !ok {
					free = append(free, n)
				}
			}
			if len(free) > 0 {
				return step("att-add", c35Args{List: pick(rng, free, 1+rng.IntN(2))})
			}
		case 15:
			// a list mixing present and absent ids is not generated: the API treats it as a failure,
			// its doc comment says otherwise, and the statement takes no side
			if rng.IntN(3) == 0 {
				var absent []string
				for _, n := range attNames {
					if _, ok := m.Att[n]; !ok {
						absent = append(absent, n)
					}
				}
				if len(absent) > 0 {
					return step("att-remove", c35Args{List: pick(rng, absent, 1)})
				}
			}
			if l := existing(sortedKeys(m.Att), 1+rng.IntN(2)); l != nil {
				return step("att-remove", c35Args{List: l})
			}
		}
	}
}

func (c35Store) Exec(s Step, path, aux string) error {
	var a c35Args
	json.Unmarshal(s.Args, &a)
	switch s.Op {
	case "kw-add":
		return api.AddKeywordsFile(path, "", a.List, dsConf())
	case "kw-remove":
		return api.RemoveKeywordsFile(path, "", a.List, dsConf())
	case "prop-add":
		return api.AddPropertiesFile(path, "", a.Map, dsConf())
	case "prop-remove":
		return api.RemovePropertiesFile(path, "", a.List, dsConf())
	case "layout-set":
		pl := model.PageLayoutFor(a.Val)
		if pl == nil {
			return fmt.Errorf("harness: unknown layout %s", a.Val)
		}
		return api.SetPageLayoutFile(path, "", *pl, dsConf())
	case "layout-reset":
		return api.ResetPageLayoutFile(path, "", dsConf())
	case "mode-set":
		pm := model.PageModeFor(a.Val)
		if pm == nil {
			return fmt.Errorf("harness: unknown mode %s", a.Val)
		}
		return api.SetPageModeFile(path, "", *pm, dsConf())
	case "mode-reset":
		return api.ResetPageModeFile(path, "", dsConf())
	case "vp-set":
		vp := model.ViewerPreferences{}
		for k, v := range a.VP {
			v := v
			switch k {
			case "HideToolbar":
				vp.HideToolbar = &v
			case "HideMenubar":
				vp.HideMenubar = &v
			case "HideWindowUI":
				vp.HideWindowUI = &v
			case "FitWindow":
				vp.FitWindow = &v
			case "CenterWindow":
				vp.CenterWindow = &v
			case "DisplayDocTitle":
				vp.DisplayDocTitle = &v
			}
		}
		return api.SetViewerPreferencesFile(path, "", vp, dsConf())
	case "vp-reset":
		return api.ResetViewerPreferencesFile(path, "", dsConf())
	case "att-add":
		var files []string
		for _, n := range a.List {
			files = append(files, filepath.Join(aux, n))
		}
		return api.AddAttachmentsFile(path, "", files, false, dsConf())
	case "att-remove":
		return api.RemoveAttachmentsFile(path, "", a.List, dsConf())
	}
	return fmt.Errorf("harness: unknown op %s", s.Op)
}

func init() {
	core.Register(histProp{id: "C35", store: c35Store{}, maxLen: 10, quickN: 40, thoroughN: 2500,
		rule: "seeded histories of 1-10 edits (keywords add/remove/remove-all, properties add/remove/remove-all, page layout and page mode set/reset, viewer preferences set/reset, attachments add/remove) over small Unicode/special-character alphabets on corpus documents, each edit through the in-place file API; after every step the listing and the extracted attachment bytes are compared with a map/set model. Half of the batches inject, in about one step of four, an errno / short write / full disk / writer panic / crash snapshot at a seeded mutating file-system call of that step. Distinct by (document, step sequence incl. faults); non-trivial when at least one step succeeded.",
		assumptions: []string{
			"keyword alphabet excludes ',' ';' and leading/trailing blanks (the Keywords entry is one separator-joined string, those are not representable); property keys exclude the standard Info keys (they are not listed as properties); re-adding a present attachment id is not generated (the statement does not say whether it replaces or duplicates)",
			"removing something absent is an error of the API and leaves the model unchanged; remove-all of properties also counts the catalog's XMP metadata stream as something removed",
		}})
}
