package docstore

import (
	"bytes"
	"crypto/sha256"
	"encoding/hex"
	"encoding/json"
	"fmt"
	"io"
	"math/rand/v2"
	"os"
	"path/filepath"
	"sort"
	"strings"
	"time"

	"github.com/pdfcpu/pdfcpu/pkg/api"
	"github.com/pdfcpu/pdfcpu/pkg/pdfcpu"
	"github.com/pdfcpu/pdfcpu/pkg/pdfcpu/model"
	"verif/core"
	"verif/engine"
	"verif/pdfgen"
)

func mkScratch() (string, error) { return os.MkdirTemp(engine.ScratchBase(), "dsm-") }
func rmScratch(d string)         { os.RemoveAll(d) }

// ---------------------------------------------------------------- C35: metadata as a key/value store

var (
	// no ',' ';' and no leading/trailing blanks: the Keywords entry is one separator-joined string
	kwAlphabet = []string{"alpha", "β-Ünï cødé", "日本語 キー", "key (paren) [b]", `back\slash`, "אבג דה", "a/b#c%", "𝔘𝔫𝔦 astral", "é combining", "Ã©tude"} // the last: Latin-1 text whose single-byte codes form well-formed UTF-8
	// standard Info keys (Title, Author, ...) are not "properties"; keys are PDF names
	propKeys = []string{"Project", "k2", "Ключ", "key with space", "a/b", "p(1)", "100%", "a#b"}
	propVals = []string{"v", "Ω verification", "值 二", "(paren) \\ back", "line1 line2", "𝔞 astral", "ﬁ ligature é", "#/%<>[]", "21 Â°C", "naÃ¯ve â€¢"}
	layouts  = []string{"SinglePage", "TwoColumnLeft", "TwoColumnRight", "TwoPageLeft", "TwoPageRight", "OneColumn"}
	modes    = []string{"UseNone", "UseOutlines", "UseThumbs", "FullScreen", "UseOC", "UseAttachments"}
	vpBools  = []string{"HideToolbar", "HideMenubar", "HideWindowUI", "FitWindow", "CenterWindow", "DisplayDocTitle", "PickTrayByPDFSize"}
	vpBoxes  = []string{"ViewArea", "ViewClip", "PrintArea", "PrintClip"} // PDF 1.4 to 1.7; the corpus documents are 1.7
	vpKeys   = append(append(append([]string{}, vpBools...), vpBoxes...), "Direction", "PrintScaling", "Duplex", "NumCopies", "NonFullScreenPageMode")
	vpValues = func() map[string][]string {
		m := map[string][]string{"Direction": {"0", "1"}, "PrintScaling": {"0", "1"}, "Duplex": {"0", "1", "2"}, "NumCopies": {"1", "2", "5"}, "NonFullScreenPageMode": {"0", "1", "2", "3"}}
		for _, k := range vpBools {
			m[k] = []string{"true", "false"}
		}
		for _, k := range vpBoxes {
			m[k] = []string{"0", "1", "2", "3", "4"} // MediaBox CropBox TrimBox BleedBox ArtBox
		}
		return m
	}()
	attDescs = []string{"Příloha", "说明 书", "desc (1)"}
	attNames = []string{"a.txt", "b.bin", "ünï.dat", "with space.txt", "c.json", "Z.TXT", "empty.bin", "big.bin", "crlf.txt"}
)

type c35Model struct {
	KW     map[string]bool
	Props  map[string]string
	Layout string
	Mode   string
	VP     map[string]string // preference -> value as text ("true", "R2L", "TrimBox", "3"); absent key = not set
	HasVP  bool
	Att    map[string]string // id -> sha256 of content
	Desc   map[string]string // id -> description (absent = none)
	XMP    bool              // catalog carries an XMP metadata stream
}

func (m *c35Model) Clone() Model {
	c := &c35Model{KW: map[string]bool{}, Props: map[string]string{}, VP: map[string]string{}, Att: map[string]string{}, Desc: map[string]string{}, Layout: m.Layout, Mode: m.Mode, HasVP: m.HasVP, XMP: m.XMP}
	for k, v := range m.KW {
		c.KW[k] = v
	}
	for k, v := range m.Props {
		c.Props[k] = v
	}
	for k, v := range m.VP {
		c.VP[k] = v
	}
	for k, v := range m.Att {
		c.Att[k] = v
	}
	for k, v := range m.Desc {
		c.Desc[k] = v
	}
	return c
}

func (m *c35Model) String() string {
	var sb strings.Builder
	fmt.Fprintf(&sb, "kw=%q props={", sortedKeys(m.KW))
	for _, k := range sortedKeys(m.Props) {
		fmt.Fprintf(&sb, "%q:%q ", k, m.Props[k])
	}
	fmt.Fprintf(&sb, "} layout=%s mode=%s vp={", m.Layout, m.Mode)
	for _, k := range sortedKeys(m.VP) {
		fmt.Fprintf(&sb, "%s:%v ", k, m.VP[k])
	}
	sb.WriteString("} att={")
	for _, k := range sortedKeys(m.Att) {
		fmt.Fprintf(&sb, "%q:%s", k, m.Att[k][:8])
		if d := m.Desc[k]; d != "" {
			fmt.Fprintf(&sb, "(%q)", d)
		}
		sb.WriteString(" ")
	}
	sb.WriteString("}")
	return sb.String()
}

type c35Args struct {
	List []string          `json:"list,omitempty"`
	Map  map[string]string `json:"map,omitempty"`
	Val  string            `json:"val,omitempty"`
	VP   map[string]string `json:"vp,omitempty"`
	// session: sub-steps applied to one in-memory document through the context-level functions the
	// file API calls (no write in between), then one write
	Steps []Step `json:"steps,omitempty"`
}

func attContent(name string) []byte {
	h := sha256.Sum256([]byte("attachment:" + name))
	switch name {
	case "empty.bin":
		return []byte{} // an attachment without content
	case "big.bin":
		// large and poorly compressible: several stream buffers long
		out := make([]byte, 0, 64<<10)
		x := h
		for len(out) < 64<<10 {
			x = sha256.Sum256(x[:])
			out = append(out, x[:]...)
		}
		return out
	case "crlf.txt":
		return []byte("line one\r\nline two\rline three\n\x00\xff endstream endobj\n")
	}
	return bytes.Repeat(h[:], 3+int(h[0])%40)
}

func (m *c35Model) Apply(s Step) bool {
	var a c35Args
	json.Unmarshal(s.Args, &a)
	switch s.Op {
	case "session":
		if len(a.Steps) == 0 {
			return false
		}
		c := m.Clone().(*c35Model)
		for _, sub := range a.Steps {
			if !c.Apply(sub) {
				return false
			}
		}
		*m = *c
		return true
	case "kw-add":
		if len(a.List) == 0 {
			return false
		}
		for _, k := range a.List {
			if strings.TrimSpace(k) == "" {
				return false
			}
		}
		for _, k := range a.List {
			m.KW[strings.TrimSpace(k)] = true
		}
		return true
	case "kw-remove":
		if len(a.List) == 0 { // remove all
			if len(m.KW) == 0 {
				return false
			}
			m.KW = map[string]bool{}
			return true
		}
		any := false
		for _, k := range a.List {
			if m.KW[k] {
				any = true
			}
		}
		if !any {
			return false
		}
		for _, k := range a.List {
			delete(m.KW, k)
		}
		return true
	case "prop-add":
		if len(a.Map) == 0 {
			return false
		}
		for k := range a.Map {
			if k == "" {
				return false
			}
		}
		for k, v := range a.Map {
			m.Props[k] = v
		}
		return true
	case "prop-remove":
		if len(a.List) == 0 {
			if len(m.Props) == 0 && !m.XMP {
				return false
			}
			m.Props = map[string]string{}
			m.XMP = false
			return true
		}
		any := false
		for _, k := range a.List {
			if _, ok := m.Props[k]; ok {
				any = true
			}
		}
		if !any {
			return false
		}
		for _, k := range a.List {
			delete(m.Props, k)
		}
		return true
	case "layout-set":
		m.Layout = a.Val
		return true
	case "layout-reset":
		m.Layout = ""
		return true
	case "mode-set":
		m.Mode = a.Val
		return true
	case "mode-reset":
		m.Mode = ""
		return true
	case "vp-set":
		if len(a.VP) == 0 {
			return false
		}
		for k, v := range a.VP {
			m.VP[k] = v
		}
		m.HasVP = true
		return true
	case "vp-reset":
		m.VP = map[string]string{}
		m.HasVP = false
		return true
	case "att-add":
		if len(a.List) == 0 {
			return false
		}
		for _, n := range a.List {
			h := sha256.Sum256(attContent(n))
			m.Att[n] = hex.EncodeToString(h[:])
			delete(m.Desc, n)
			if d := a.Map[n]; d != "" {
				m.Desc[n] = d
			}
		}
		return true
	case "att-remove-by-desc":
		// the one attachment carrying this description (the generator makes sure there is exactly one
		// and that the text is not an attachment id)
		id := ""
		for k, d := range m.Desc {
			if d == a.Val {
				if id != "" {
					return false
				}
				id = k
			}
		}
		if id == "" {
			return false
		}
		delete(m.Att, id)
		delete(m.Desc, id)
		return true
	case "att-remove":
		if len(a.List) == 0 {
			if len(m.Att) == 0 {
				return false
			}
			m.Att = map[string]string{}
			m.Desc = map[string]string{}
			return true
		}
		for _, n := range a.List {
			if _, ok := m.Att[n]; !ok {
				return false
			}
		}
		for _, n := range a.List {
			delete(m.Att, n)
			delete(m.Desc, n)
		}
		return true
	}
	return false
}

// vpSet / vpGet address one viewer preference by name; enumerations travel as their numeric value
// so that neither side depends on pdfcpu's name tables.
func vpSet(vp *model.ViewerPreferences, k, v string) error {
	b := v == "true"
	n := 0
	fmt.Sscanf(v, "%d", &n)
	switch k {
	case "HideToolbar":
		vp.HideToolbar = &b
	case "HideMenubar":
		vp.HideMenubar = &b
	case "HideWindowUI":
		vp.HideWindowUI = &b
	case "FitWindow":
		vp.FitWindow = &b
	case "CenterWindow":
		vp.CenterWindow = &b
	case "DisplayDocTitle":
		vp.DisplayDocTitle = &b
	case "PickTrayByPDFSize":
		vp.PickTrayByPDFSize = &b
	case "ViewArea":
		x := model.PageBoundary(n)
		vp.ViewArea = &x
	case "ViewClip":
		x := model.PageBoundary(n)
		vp.ViewClip = &x
	case "PrintArea":
		x := model.PageBoundary(n)
		vp.PrintArea = &x
	case "PrintClip":
		x := model.PageBoundary(n)
		vp.PrintClip = &x
	case "Direction":
		x := model.Direction(n)
		vp.Direction = &x
	case "PrintScaling":
		x := model.PrintScaling(n)
		vp.PrintScaling = &x
	case "Duplex":
		x := model.PaperHandling(n)
		vp.Duplex = &x
	case "NumCopies":
		vp.SetNumCopies(n)
	case "NonFullScreenPageMode":
		x := nfsModes[n%len(nfsModes)]
		vp.NonFullScreenPageMode = &x
	default:
		return fmt.Errorf("harness: unknown viewer preference %s", k)
	}
	return nil
}

func vpGet(vp *model.ViewerPreferences, k string) (string, bool) {
	bs := func(p *bool) (string, bool) {
		if p == nil {
			return "", false
		}
		return fmt.Sprint(*p), true
	}
	switch k {
	case "HideToolbar":
		return bs(vp.HideToolbar)
	case "HideMenubar":
		return bs(vp.HideMenubar)
	case "HideWindowUI":
		return bs(vp.HideWindowUI)
	case "FitWindow":
		return bs(vp.FitWindow)
	case "CenterWindow":
		return bs(vp.CenterWindow)
	case "DisplayDocTitle":
		return bs(vp.DisplayDocTitle)
	case "PickTrayByPDFSize":
		return bs(vp.PickTrayByPDFSize)
	case "ViewArea":
		if vp.ViewArea != nil {
			return fmt.Sprint(int(*vp.ViewArea)), true
		}
	case "ViewClip":
		if vp.ViewClip != nil {
			return fmt.Sprint(int(*vp.ViewClip)), true
		}
	case "PrintArea":
		if vp.PrintArea != nil {
			return fmt.Sprint(int(*vp.PrintArea)), true
		}
	case "PrintClip":
		if vp.PrintClip != nil {
			return fmt.Sprint(int(*vp.PrintClip)), true
		}
	case "Direction":
		if vp.Direction != nil {
			return fmt.Sprint(int(*vp.Direction)), true
		}
	case "PrintScaling":
		if vp.PrintScaling != nil {
			return fmt.Sprint(int(*vp.PrintScaling)), true
		}
	case "Duplex":
		if vp.Duplex != nil {
			return fmt.Sprint(int(*vp.Duplex)), true
		}
	case "NumCopies":
		if vp.NumCopies != nil {
			return fmt.Sprint(int(*vp.NumCopies)), true
		}
	case "NonFullScreenPageMode":
		if vp.NonFullScreenPageMode != nil {
			for i, x := range nfsModes {
				if x == *vp.NonFullScreenPageMode {
					return fmt.Sprint(i), true
				}
			}
			return fmt.Sprintf("?%d", int(*vp.NonFullScreenPageMode)), true
		}
	}
	return "", false
}

// the exported constants of the API, in the order the alphabet numbers them
var nfsModes = []model.NonFullScreenPageMode{model.NFSPageModeUseNone, model.NFSPageModeUseOutlines, model.NFSPageModeUseThumb, model.NFSPageModeUseOC}

type c35Store struct{}

func (c35Store) ID() string { return "C35" }
func (c35Store) Docs() []string {
	// xdp_2.0.pdf and T4.pdf carry their keywords in the catalog's XMP metadata stream as well
	// gen:meta: generated, keywords both in the Info dictionary and in a (newer) XMP packet
	return []string{"zineTest.pdf", "gen:meta", "xdp_2.0.pdf", "test.pdf", "Walden.pdf", "testWithText.pdf", "T4.pdf"}
}

// genMetaDoc writes (independently of pdfcpu's writer) a two-page document whose keywords are recorded
// twice, as producers do: in the Info dictionary and in the catalog's XMP metadata stream (which is
// newer than the Info dictionary), plus one custom property. It returns the document and what it holds.
func genMetaDoc() ([]byte, *c35Model) {
	xmp := `<?xpacket begin="" id="W5M0MpCehiHzreSzNTczkc9d"?>
<x:xmpmeta xmlns:x="adobe:ns:meta/">
 <rdf:RDF xmlns:rdf="http://www.w3.org/1999/02/22-rdf-syntax-ns#">
  <rdf:Description rdf:about="" xmlns:pdf="http://ns.adobe.com/pdf/1.3/" xmlns:xmp="http://ns.adobe.com/xap/1.0/">
   <pdf:Keywords>gen-one; gen two</pdf:Keywords>
   <pdf:Producer>verif pdfgen</pdf:Producer>
   <xmp:CreateDate>2024-05-01T10:00:00Z</xmp:CreateDate>
   <xmp:ModifyDate>2024-05-01T10:00:00Z</xmp:ModifyDate>
  </rdf:Description>
 </rdf:RDF>
</x:xmpmeta>
<?xpacket end="w"?>`
	pages := []pdfgen.PageSpec{{Marker: "META-1"}, {Marker: "META-2"}}
	b := pdfgen.DocX(pages, 2, []int{0}, [][4]float64{{0, 0, 300, 400}}, pdfgen.Extra{
		Info: "/Keywords (gen-one; gen two) /Producer (verif pdfgen) /ModDate (D:20200101000000Z) /CreationDate (D:20200101000000Z) /Project (generated)",
		XMP:  []byte(xmp)})
	m := &c35Model{KW: map[string]bool{"gen-one": true, "gen two": true}, Props: map[string]string{"Project": "generated"}, VP: map[string]string{}, Att: map[string]string{}, Desc: map[string]string{}, XMP: true}
	return b, m
}

func (c35Store) Materialise(doc, path string) error {
	if doc == "gen:meta" {
		b, _ := genMetaDoc()
		return os.WriteFile(path, b, 0644)
	}
	b, err := os.ReadFile(filepath.Join("/repo/pkg/testdata", doc))
	if err != nil {
		return err
	}
	return os.WriteFile(path, b, 0644)
}
func (c35Store) SetupAux(aux string) error {
	for _, n := range attNames {
		if err := os.WriteFile(filepath.Join(aux, n), attContent(n), 0644); err != nil {
			return err
		}
	}
	return nil
}
func (c35Store) Structural(string, Model) error { return nil }

func (c35Store) Families() []string { return []string{"kw", "prop", "view", "vp", "att"} }
var sessionOps = map[string]bool{"kw-add": true, "kw-remove": true, "prop-add": true, "prop-remove": true, "att-add": true, "att-remove": true}

func (c35Store) Family(op string) string {
	switch {
	case op == "session":
		return "prop" // sessions mix families; counted with one of them

	case strings.HasPrefix(op, "layout"), strings.HasPrefix(op, "mode"):
		return "view"
	}
	return strings.SplitN(op, "-", 2)[0]
}

func (c35Store) Valid(mm Model, s Step) bool {
	m := mm.(*c35Model)
	var a c35Args
	json.Unmarshal(s.Args, &a)
	switch s.Op {
	case "session":
		c := m.Clone().(*c35Model)
		for _, sub := range a.Steps {
			if !sessionOps[sub.Op] || !(c35Store{}).Valid(c, sub) || !c.Apply(sub) {
				return false
			}
		}
		return len(a.Steps) > 0
	case "att-add":
		for _, n := range a.List {
			if _, ok := m.Att[n]; ok {
				return false
			}
		}
	case "att-remove":
		present := 0
		for _, n := range a.List {
			if _, ok := m.Att[n]; ok {
				present++
			}
		}
		return present == 0 || present == len(a.List)
	case "att-remove-by-desc":
		n := 0
		for _, d := range m.Desc {
			if d == a.Val {
				n++
			}
		}
		_, isID := m.Att[a.Val]
		return n == 1 && !isID
	case "kw-remove":
		return len(a.List) > 0 || len(m.KW) > 0
	case "prop-remove":
		return len(a.List) > 0 || len(m.Props) > 0
	}
	return true
}

func dsConf() *model.Configuration { return model.NewDefaultConfiguration() }

func (s c35Store) observeModel(path string) (*c35Model, error) {
	m := &c35Model{KW: map[string]bool{}, Props: map[string]string{}, VP: map[string]string{}, Att: map[string]string{}, Desc: map[string]string{}}
	b, err := os.ReadFile(path)
	if err != nil {
		return nil, err
	}
	rs := func() io.ReadSeeker { return bytes.NewReader(b) }
	kw, err := api.Keywords(rs(), dsConf())
	if err != nil {
		return nil, fmt.Errorf("list keywords: %w", err)
	}
	for _, k := range kw {
		m.KW[k] = true
	}
	props, err := api.Properties(rs(), dsConf())
	if err != nil {
		return nil, fmt.Errorf("list properties: %w", err)
	}
	for k, v := range props {
		m.Props[k] = v
	}
	pl, err := api.PageLayout(rs(), dsConf())
	if err != nil {
		return nil, fmt.Errorf("page layout: %w", err)
	}
	if pl != nil {
		m.Layout = pl.String()
	}
	pm, err := api.PageMode(rs(), dsConf())
	if err != nil {
		return nil, fmt.Errorf("page mode: %w", err)
	}
	if pm != nil {
		m.Mode = pm.String()
	}
	vp, _, err := api.ViewerPreferences(rs(), dsConf())
	if err != nil {
		return nil, fmt.Errorf("viewer preferences: %w", err)
	}
	if vp != nil {
		m.HasVP = true
		for _, k := range vpKeys {
			if v, ok := vpGet(vp, k); ok {
				m.VP[k] = v
			}
		}
	}
	listed, err := api.Attachments(rs(), dsConf())
	if err != nil {
		return nil, fmt.Errorf("list attachments: %w", err)
	}
	var aa []model.Attachment
	if len(listed) > 0 {
		aa, err = api.ExtractAttachmentsRaw(rs(), "", nil, dsConf())
		if err != nil {
			return nil, fmt.Errorf("extract attachments: %w", err)
		}
		if len(aa) != len(listed) {
			return nil, fmt.Errorf("%d attachments listed, %d extracted", len(listed), len(aa))
		}
	}
	for _, a := range aa {
		data, err := io.ReadAll(a)
		if err != nil {
			return nil, fmt.Errorf("attachment %q: %w", a.ID, err)
		}
		h := sha256.Sum256(data)
		m.Att[a.ID] = hex.EncodeToString(h[:])
	}
	for _, a := range listed {
		if _, ok := m.Att[a.ID]; !ok {
			return nil, fmt.Errorf("attachment %q is listed but not extracted", a.ID)
		}
		if a.Desc != "" {
			m.Desc[a.ID] = a.Desc
		}
	}
	return m, nil
}

func (s c35Store) NewModel(path string) (Model, error) {
	if b, err := os.ReadFile(path); err == nil {
		// generated document: the model is the generator's own description, not what pdfcpu reads
		if gb, truth := genMetaDoc(); bytes.Equal(gb, b) {
			return truth, nil
		}
	}
	m, err := s.observeModel(path)
	if err != nil {
		return nil, err
	}
	// does the catalog carry XMP metadata? (remove-all-properties also removes it and then counts as a removal)
	b, _ := os.ReadFile(path)
	ctx, err := api.ReadContext(bytes.NewReader(b), dsConf())
	if err == nil {
		if rd, err := ctx.Catalog(); err == nil {
			_, m.XMP = rd["Metadata"]
		}
	}
	return m, nil
}

func (s c35Store) Observe(path string) (string, error) {
	m, err := s.observeModel(path)
	if err != nil {
		return "", err
	}
	return m.String(), nil
}

func pick(rng *rand.Rand, from []string, n int) []string {
	idx := rng.Perm(len(from))
	var out []string
	for i := 0; i < n && i < len(from); i++ {
		out = append(out, from[idx[i]])
	}
	sort.Strings(out)
	return out
}

func step(op string, a c35Args) Step {
	b, _ := json.Marshal(a)
	return Step{Op: op, Args: b}
}

func (st c35Store) Gen(rng *rand.Rand, mm Model, aux string) Step { return st.gen(rng, mm, aux, true) }

func (c35Store) gen(rng *rand.Rand, mm Model, aux string, allowSession bool) Step {
	m := mm.(*c35Model)
	existing := func(set []string, n int) []string {
		if len(set) == 0 {
			return nil
		}
		return pick(rng, set, n)
	}
	if allowSession && rng.IntN(9) == 0 {
		// a session: 2-5 accepted edits of keywords, properties and attachments on one in-memory document
		c := m.Clone().(*c35Model)
		var subs []Step
		for try := 0; try < 60 && len(subs) < 2+rng.IntN(4); try++ {
			sub := (c35Store{}).gen(rng, c, aux, false)
			if !sessionOps[sub.Op] || !(c35Store{}).Valid(c, sub) {
				continue
			}
			cc := c.Clone().(*c35Model)
			if !cc.Apply(sub) {
				continue
			}
			c = cc
			subs = append(subs, sub)
		}
		if len(subs) > 1 {
			st := step("session", c35Args{Steps: subs})
			st.NoFault = true
			return st
		}
	}
	for {
		switch rng.IntN(16) {
		case 0, 1:
			return step("kw-add", c35Args{List: pick(rng, kwAlphabet, 1+rng.IntN(3))})
		case 2:
			if rng.IntN(3) == 0 {
				return step("kw-remove", c35Args{List: pick(rng, kwAlphabet, 1+rng.IntN(2))}) // possibly absent ones
			}
			if l := existing(sortedKeys(m.KW), 1+rng.IntN(2)); l != nil {
				return step("kw-remove", c35Args{List: l})
			}
		case 3:
			// remove-all is generated only when there is something to remove: whether an empty
			// Keywords entry counts as "something" is not part of the statement
			if rng.IntN(4) == 0 && len(m.KW) > 0 {
				return step("kw-remove", c35Args{})
			}
		case 4, 5:
			mp := map[string]string{}
			for _, k := range pick(rng, propKeys, 1+rng.IntN(2)) {
				mp[k] = propVals[rng.IntN(len(propVals))]
			}
			return step("prop-add", c35Args{Map: mp})
		case 6:
			if rng.IntN(3) == 0 {
				return step("prop-remove", c35Args{List: pick(rng, propKeys, 1+rng.IntN(2))})
			}
			if l := existing(sortedKeys(m.Props), 1+rng.IntN(2)); l != nil {
				return step("prop-remove", c35Args{List: l})
			}
		case 7:
			if rng.IntN(4) == 0 && len(m.Props) > 0 {
				return step("prop-remove", c35Args{})
			}
		case 8:
			return step("layout-set", c35Args{Val: layouts[rng.IntN(len(layouts))]})
		case 9:
			if rng.IntN(2) == 0 {
				return step("layout-reset", c35Args{})
			}
			return step("mode-reset", c35Args{})
		case 10:
			return step("mode-set", c35Args{Val: modes[rng.IntN(len(modes))]})
		case 11:
			vp := map[string]string{}
			for _, k := range pick(rng, vpKeys, 1+rng.IntN(3)) {
				vals := vpValues[k]
				vp[k] = vals[rng.IntN(len(vals))]
			}
			return step("vp-set", c35Args{VP: vp})
		case 12:
			if rng.IntN(2) == 0 {
				return step("vp-reset", c35Args{})
			}
		case 13, 14:
			// never re-add an id that is present: the statement does not say whether that replaces or duplicates
			var free []string
			for _, n := range attNames {
				if _, ok := m.Att[n]; !ok {
					free = append(free, n)
				}
			}
			if len(free) > 0 {
				l := pick(rng, free, 1+rng.IntN(2))
				descs := map[string]string{}
				for _, n := range l {
					if rng.IntN(2) == 0 {
						descs[n] = attDescs[rng.IntN(len(attDescs))] + " " + n
					}
				}
				return step("att-add", c35Args{List: l, Map: descs})
			}
		case 15:
			// a list mixing present and absent ids is not generated: the API treats it as a failure,
			// its doc comment says otherwise, and the statement takes no side
			if rng.IntN(3) == 0 {
				var absent []string
				for _, n := range attNames {
					if _, ok := m.Att[n]; !ok {
						absent = append(absent, n)
					}
				}
				if len(absent) > 0 {
					return step("att-remove", c35Args{List: pick(rng, absent, 1)})
				}
			}
			if len(m.Desc) > 0 && rng.IntN(3) == 0 {
				// address an attachment by its description instead of its id; whether the API supports
				// that is its choice (MayReject), but a reported success must have removed exactly it
				ids := sortedKeys(m.Desc)
				st := step("att-remove-by-desc", c35Args{Val: m.Desc[ids[rng.IntN(len(ids))]]})
				st.MayReject = true
				return st
			}
			if l := existing(sortedKeys(m.Att), 1+rng.IntN(2)); l != nil {
				return step("att-remove", c35Args{List: l})
			}
		}
	}
}

func (c35Store) Exec(s Step, path, aux string) error {
	var a c35Args
	json.Unmarshal(s.Args, &a)
	switch s.Op {
	case "session":
		return c35Session(path, aux, a.Steps)
	case "kw-add":
		return api.AddKeywordsFile(path, "", a.List, dsConf())
	case "kw-remove":
		return api.RemoveKeywordsFile(path, "", a.List, dsConf())
	case "prop-add":
		return api.AddPropertiesFile(path, "", a.Map, dsConf())
	case "prop-remove":
		return api.RemovePropertiesFile(path, "", a.List, dsConf())
	case "layout-set":
		pl := model.PageLayoutFor(a.Val)
		if pl == nil {
			return fmt.Errorf("harness: unknown layout %s", a.Val)
		}
		return api.SetPageLayoutFile(path, "", *pl, dsConf())
	case "layout-reset":
		return api.ResetPageLayoutFile(path, "", dsConf())
	case "mode-set":
		pm := model.PageModeFor(a.Val)
		if pm == nil {
			return fmt.Errorf("harness: unknown mode %s", a.Val)
		}
		return api.SetPageModeFile(path, "", *pm, dsConf())
	case "mode-reset":
		return api.ResetPageModeFile(path, "", dsConf())
	case "vp-set":
		vp := model.ViewerPreferences{}
		for k, v := range a.VP {
			if err := vpSet(&vp, k, v); err != nil {
				return err
			}
		}
		return api.SetViewerPreferencesFile(path, "", vp, dsConf())
	case "vp-reset":
		return api.ResetViewerPreferencesFile(path, "", dsConf())
	case "att-add":
		var files []string
		for _, n := range a.List {
			f := filepath.Join(aux, n)
			if d := a.Map[n]; d != "" {
				f += "," + d // "file,description"
			}
			files = append(files, f)
		}
		return api.AddAttachmentsFile(path, "", files, false, dsConf())
	case "att-remove-by-desc":
		return api.RemoveAttachmentsFile(path, "", []string{a.Val}, dsConf())
	case "att-remove":
		return api.RemoveAttachmentsFile(path, "", a.List, dsConf())
	}
	return fmt.Errorf("harness: unknown op %s", s.Op)
}

// c35Session applies the sub-steps to one in-memory document and writes it once.
func c35Session(path, aux string, subs []Step) error {
	b, err := os.ReadFile(path)
	if err != nil {
		return fmt.Errorf("harness: %w", err)
	}
	conf := dsConf()
	conf.Cmd = model.ADDPROPERTIES
	ctx, err := api.ReadValidateAndOptimize(bytes.NewReader(b), conf)
	if err != nil {
		return err
	}
	mt := time.Now()
	for i, sub := range subs {
		var a c35Args
		json.Unmarshal(sub.Args, &a)
		ok := true
		var err error
		switch sub.Op {
		case "kw-add":
			err = pdfcpu.KeywordsAdd(ctx, a.List)
		case "kw-remove":
			ok, err = pdfcpu.KeywordsRemove(ctx, a.List)
		case "prop-add":
			err = pdfcpu.PropertiesAdd(ctx, a.Map)
		case "prop-remove":
			ok, err = pdfcpu.PropertiesRemove(ctx, a.List)
		case "att-add":
			for _, n := range a.List {
				if err = ctx.AddAttachment(model.Attachment{Reader: bytes.NewReader(attContent(n)), ID: n, Desc: a.Map[n], ModTime: &mt}, false); err != nil {
					break
				}
			}
		case "att-remove":
			ok, err = ctx.RemoveAttachments(a.List)
		default:
			return fmt.Errorf("harness: session op %s", sub.Op)
		}
		if err != nil {
			return fmt.Errorf("session step %d (%s): %w", i+1, sub.Op, err)
		}
		if !ok {
			return fmt.Errorf("session step %d (%s): nothing removed", i+1, sub.Op)
		}
	}
	var out bytes.Buffer
	if err := api.Write(ctx, &out, conf); err != nil {
		return err
	}
	tmp := path + ".session"
	if err := os.WriteFile(tmp, out.Bytes(), 0644); err != nil {
		return fmt.Errorf("harness: %w", err)
	}
	if err := os.Rename(tmp, path); err != nil {
		return fmt.Errorf("harness: %w", err)
	}
	return nil
}

func init() {
	core.Register(histProp{id: "C35", store: c35Store{}, maxLen: 10, quickDocs: 4, quickN: 40, thoroughN: 800,
		rule: "seeded histories of 1-10 edits (keywords add/remove/remove-all, properties add/remove/remove-all, page layout and page mode set/reset, viewer preferences set/reset (17 preferences: flags, direction, view/print area and clip, print scaling, duplex, copies, non-full-screen page mode), attachments add/remove) over small Unicode/special-character alphabets on corpus documents, each edit through the in-place file API, one step in nine a session of 2-5 keyword/property/attachment edits on one in-memory document through the context-level functions with a single write; after every step the listing and the extracted attachment bytes are compared with a map/set model. Half of the batches inject, in about one step of four, an errno / short write / full disk / writer panic / crash snapshot at a seeded mutating file-system call of that step. Distinct by (document, step sequence incl. faults); non-trivial when at least one step succeeded.",
		assumptions: []string{
			"keyword alphabet excludes ',' ';' and leading/trailing blanks (the Keywords entry is one separator-joined string, those are not representable); property keys exclude the standard Info keys (they are not listed as properties); re-adding a present attachment id is not generated (the statement does not say whether it replaces or duplicates)",
			"removing something absent is an error of the API and leaves the model unchanged; remove-all of properties also counts the catalog's XMP metadata stream as something removed",
		}})
}
