// Package docstore treats a PDF file as a durable store, each in-place file-based API call as a
// read-modify-write transaction, and checks seeded histories of such calls against small executable
// reference models, with faults and crashes injected by simfs as additional "operations":
//
//	ERR/PANIC/ENOSPC inside step i -> the step must fail, the file must be byte-identical, the model does not advance
//	CRASH after event k of step i  -> the file as it is at that instant must read back as the model state before OR after the step
//	no fault                       -> the model advances and the observation must equal it
package docstore

import (
	"crypto/sha256"
	"encoding/hex"
	"encoding/json"
	"fmt"
	"hash/fnv"
	"math/rand/v2"
	"os"
	"path/filepath"
	"runtime"
	"runtime/debug"
	"sort"
	"strings"

	"verif/engine"
	"verif/simclock"
	"verif/simfs"
)

// StepFault addresses a fault inside one step by the ordinal of the mutating (non-read) event.
type StepFault struct {
	Kind string `json:"kind"` // ERR PANIC SHORTWRITE ENOSPC_FROM CRASH
	N    int    `json:"n"`    // 1-based ordinal among non-read events of the step; reduced modulo their number
}

// Step is one operation of a history.
type Step struct {
	Op    string          `json:"op"`
	Args  json.RawMessage `json:"args,omitempty"`
	Fault *StepFault      `json:"fault,omitempty"`
	// MayReject: the statement does not say whether the API accepts this edit; it may reject it
	// (document byte-identical) or perform it, and if it reports success the model's result is due.
	MayReject bool `json:"may_reject,omitempty"`
	// NoFault: the generator does not attach a fault to this step (its outcome is reconciled with the
	// observation, see Reconciler, which the before/after comparison of a crash snapshot cannot do).
	NoFault bool `json:"no_fault,omitempty"`
}

// Equivalencer is implemented by stores whose observation carries computed numbers: two renderings
// are the same state if they differ only by rounding of such numbers (a value that falls on a
// rounding boundary may be printed one unit apart by the model and by the observation).
type Equivalencer interface {
	Equivalent(obs, want string) bool
}

func same(st Store, obs, want string) bool {
	if obs == want {
		return true
	}
	if eq, ok := st.(Equivalencer); ok {
		return eq.Equivalent(obs, want)
	}
	return false
}

// Reconciler is implemented by stores with steps whose result the statement leaves partly open
// (inserting a key that is present: replaced, or kept under a derived key). After such a step has
// succeeded the model adopts - narrowly - which of the permitted results the document shows.
type Reconciler interface {
	Reconcile(m Model, path string)
}

func (s Step) String() string {
	f := ""
	if s.Fault != nil {
		f = fmt.Sprintf(" [%s@%d]", s.Fault.Kind, s.Fault.N)
	}
	return s.Op + string(s.Args) + f
}

// History is a starting document plus steps.
type History struct {
	Doc   string `json:"doc"`
	Steps []Step `json:"steps"`
	// MapSalt: the runtime's random sequence (map seeds, map iteration offsets) is restarted from a
	// value derived from it before every step, dry run and observation, so that a history replays
	// with the same map walk orders, and histories with different salts explore different ones.
	MapSalt uint64 `json:"map_salt,omitempty"`
}

func (h History) reseed(s *Step, phase string) {
	f := fnv.New64a()
	if s != nil {
		f.Write([]byte(s.Op))
		f.Write(s.Args)
	}
	f.Write([]byte(phase))
	runtime.VerifSetMapRand(f.Sum64() ^ h.MapSalt)
	simclock.Install(f.Sum64() ^ h.MapSalt) // simulated time restarts with it (uninstalled when the history ends)
}

// Model is a reference model of one property's store.
type Model interface {
	Clone() Model
	// Apply advances the model if the step is expected to succeed and says so.
	Apply(s Step) (expectOK bool)
	String() string
}

// Store binds a model to the real API.
type Store interface {
	ID() string
	Docs() []string                               // starting documents (paths or generator names)
	Materialise(doc, path string) error           // write the starting document to path
	NewModel(path string) (Model, error)          // initial model, from the starting document
	Gen(rng *rand.Rand, m Model, aux string) Step // next step given the current model state
	Exec(s Step, path, aux string) error          // the real in-place API call
	Observe(path string) (string, error)          // observation in the model's String() format
	SetupAux(aux string) error                    // auxiliary input files (attachments)
	Structural(path string, m Model) error        // extra invariants on the re-read file (C39), nil if none
	// Valid says whether step s belongs to the generator's alphabet in model state m (shrinking must
	// not turn a history into one the generator deliberately never produces).
	Valid(m Model, s Step) bool
}

// Violation found by a history.
type Violation struct {
	Class  string
	Step   int
	Detail string
}

// Stats of one history run.
type Stats struct {
	Steps        int
	OK, Rejected int
	FaultsFired  map[string]int
	CrashObs     int
	CrashBefore  int
	CrashAfter   int
	Events       int
	Absorbed     int
	Skipped      int
}

func sumFile(p string) string {
	b, err := os.ReadFile(p)
	if err != nil {
		return "ERR:" + err.Error()
	}
	h := sha256.Sum256(b)
	return hex.EncodeToString(h[:])
}

func isRead(op string) bool {
	switch op {
	case "read", "pread", "stat", "lstat", "fstat", "open", "opendir", "readdir":
		return true
	}
	return false
}

// countMutating dry-runs step s on a copy of the document and returns the number of non-read events.
func countMutating(st Store, s Step, path, aux, scratch string) int {
	cp := filepath.Join(scratch, "dry.pdf")
	b, _ := os.ReadFile(path)
	os.WriteFile(cp, b, 0644)
	defer os.Remove(cp)
	sim := &simfs.Sim{Root: scratch}
	simfs.Activate(sim)
	func() {
		defer func() { recover() }()
		st.Exec(s, cp, aux)
	}()
	simfs.Deactivate()
	n := 0
	for _, e := range sim.Events {
		if !isRead(e.Op) {
			n++
		}
	}
	// remove anything the dry run left
	ents, _ := os.ReadDir(scratch)
	for _, d := range ents {
		if strings.HasPrefix(d.Name(), ".dry") || strings.HasPrefix(d.Name(), "dry") {
			os.Remove(filepath.Join(scratch, d.Name()))
		}
	}
	return n
}

// Run executes a history. It stops at the first violation.
func Run(st Store, h History) (*Violation, Stats, error) {
	stats := Stats{FaultsFired: map[string]int{}}
	h.reseed(nil, "setup") // the starting document may be written by pdfcpu itself (prebuilt trees)
	defer simclock.Uninstall()
	root, err := os.MkdirTemp(engine.ScratchBase(), "ds-")
	if err != nil {
		return nil, stats, err
	}
	defer os.RemoveAll(root)
	docDir := filepath.Join(root, "doc")
	aux := filepath.Join(root, "aux")
	dry := filepath.Join(root, "dry")
	tmp := filepath.Join(root, "tmp")
	for _, d := range []string{docDir, aux, dry, tmp} {
		os.Mkdir(d, 0755)
	}
	os.Setenv("TMPDIR", tmp)
	path := filepath.Join(docDir, "doc.pdf")
	if err := st.Materialise(h.Doc, path); err != nil {
		return nil, stats, err
	}
	if err := st.SetupAux(aux); err != nil {
		return nil, stats, err
	}
	h.reseed(nil, "init")
	model, err := st.NewModel(path)
	if err != nil {
		return nil, stats, fmt.Errorf("initial model of %s: %w", h.Doc, err)
	}
	if obs, err := st.Observe(path); err != nil || !same(st, obs, model.String()) {
		// the starting document's model is stated independently (generator ground truth): pdfcpu reads
		// the untouched document differently from what was written
		return &Violation{Class: "initial-state-mismatch", Step: -1, Detail: fmt.Sprintf("the starting document %s, before any operation, is not observed as what it is: %v\n%s", h.Doc, err, stateDiff(obs, model.String()))}, stats, nil
	}
	for i, s := range h.Steps {
		if !st.Valid(model, s) {
			// an earlier faulted step failed, so this step is no longer in the generator's alphabet
			// (e.g. it would re-add a present attachment): not executed
			stats.Skipped++
			continue
		}
		stats.Steps++
		before := model.Clone()
		after := model.Clone()
		expectOK := after.Apply(s)
		sumBefore := sumFile(path)

		sim := &simfs.Sim{Root: root}
		var crashCopy []byte
		crashTaken := false
		target := 0
		if s.Fault != nil {
			h.reseed(&s, "exec") // the dry run walks its maps exactly like the real one
			n := countMutating(st, s, path, aux, dry)
			if n > 0 {
				target = 1 + (s.Fault.N-1)%n
			}
			seen := 0
			kind := s.Fault.Kind
			if kind == "CRASH" {
				sim.AfterEvent = func(ev *simfs.Event) {
					if isRead(ev.Op) {
						return
					}
					seen++
					if seen == target {
						crashCopy, _ = os.ReadFile(path)
						crashTaken = true
					}
				}
			} else {
				sim.Decide = func(ev *simfs.Event) *simfs.Fault {
					if isRead(ev.Op) {
						return nil
					}
					seen++
					if seen != target {
						return nil
					}
					f := &simfs.Fault{Kind: kind}
					if kind == simfs.KErr {
						f.Errno = int(simfs.ErrnoAt(ev.Op, ev.Seq))
					}
					if (kind == simfs.KShort || kind == simfs.KEnospcFrom) && ev.Op != "write" && ev.Op != "openExcl" && ev.Op != "create" {
						f.Kind = simfs.KErr
						f.Errno = int(simfs.ErrnoAt(ev.Op, ev.Seq))
					}
					if kind == simfs.KPanic && ev.Op != "write" && ev.Op != "pwrite" {
						// panics model failures of pdfcpu's own processing code: only at data events (see C01)
						f.Kind = simfs.KErr
						f.Errno = int(simfs.ErrnoAt(ev.Op, ev.Seq))
					}
					return f
				}
			}
		}
		var execErr error
		panicked := false
		var panicVal any
		var stack string
		h.reseed(&s, "exec")
		simfs.Activate(sim)
		func() {
			defer func() {
				if p := recover(); p != nil {
					panicked, panicVal = true, p
					if _, ok := p.(simfs.InjectedPanic); !ok {
						stack = string(debug.Stack())
					}
				}
			}()
			execErr = st.Exec(s, path, aux)
		}()
		simfs.Deactivate()
		stats.Events += len(sim.Events)
		h.reseed(&s, "observe")
		mk := func(class, detail string) *Violation {
			mb := before.String()
			if strings.Count(mb, "\n") > 3 {
				mb = "(long; replay prints it)"
			}
			return &Violation{Class: class, Step: i, Detail: fmt.Sprintf("step %d: %s\nreturned err=%v panicked=%v %v\n%s\nmodel before: %s\n%s", i+1, s, execErr, panicked, panicVal, detail, mb, stack)}
		}
		// nothing but the document may be in its directory
		removeFaulted := false
		for _, f := range sim.Fired {
			if f.Kind == simfs.KErr && (f.Addr.Op == "remove" || f.Addr.Op == "removeall") {
				removeFaulted = true // nothing can delete the path whose removal was the injected fault
			}
		}
		ents, _ := os.ReadDir(docDir)
		for _, d := range ents {
			if d.Name() != "doc.pdf" {
				if removeFaulted {
					os.RemoveAll(filepath.Join(docDir, d.Name()))
					continue
				}
				return mk("leftover-file", fmt.Sprintf("after the step the document directory holds %q", d.Name())), stats, nil
			}
		}
		failed := execErr != nil || panicked
		if len(sim.Fired) > 0 {
			for _, f := range sim.Fired {
				stats.FaultsFired[f.Kind]++
			}
			if failed {
				if got := sumFile(path); got != sumBefore {
					return mk("failed-step-changed-file", "a fault was injected, the step failed, but the document is not byte-identical to before"), stats, nil
				}
				model = before
				continue
			}
			stats.Absorbed++
		}
		if crashTaken {
			stats.CrashObs++
			stats.FaultsFired["CRASH"]++
			cp := filepath.Join(dry, "crash.pdf")
			os.WriteFile(cp, crashCopy, 0644)
			obs, oerr := st.Observe(cp)
			os.Remove(cp)
			switch {
			case oerr != nil:
				return mk("crash-state-unreadable", fmt.Sprintf("the document as it was after mutating event %d of the step cannot be read: %v", target, oerr)), stats, nil
			case same(st, obs, before.String()):
				stats.CrashBefore++
			case expectOK && same(st, obs, after.String()):
				stats.CrashAfter++
			default:
				return mk("crash-state-neither", fmt.Sprintf("the document as it was after mutating event %d of the step is neither the state before nor after it:\nobserved: %s\nafter:    %s", target, obs, after.String())), stats, nil
			}
		}
		if panicked {
			return mk("panic", "the step panicked without any injected fault"), stats, nil
		}
		if expectOK && failed && s.MayReject {
			expectOK = false
		}
		if expectOK != !failed {
			if expectOK {
				return mk("unexpected-failure", "the model expects this step to succeed"), stats, nil
			}
			return mk("unexpected-success", "the model expects this step to be rejected (and to change nothing)"), stats, nil
		}
		if failed {
			stats.Rejected++
			if got := sumFile(path); got != sumBefore {
				return mk("rejected-step-changed-file", "the step was rejected but the document is not byte-identical to before"), stats, nil
			}
			model = before
			continue
		}
		stats.OK++
		model = after
		if rc, ok := st.(Reconciler); ok {
			rc.Reconcile(model, path)
		}
		obs, oerr := st.Observe(path)
		if oerr != nil {
			return mk("unreadable-after-success", fmt.Sprintf("the step reported success but the document can no longer be read: %v", oerr)), stats, nil
		}
		if !same(st, obs, model.String()) {
			return mk("state-mismatch", stateDiff(obs, model.String())), stats, nil
		}
		if err := st.Structural(path, model); err != nil {
			return mk("structure", err.Error()), stats, nil
		}
	}
	return nil, stats, nil
}

// Shrink minimises a failing history (same violation class), re-executing every candidate.
// StepShrinker is implemented by stores that can propose smaller variants of one step (fewer list
// elements); the shrinker keeps a variant when the same violation class persists.
type StepShrinker interface {
	ShrinkStep(s Step) []Step
}

func Shrink(st Store, h History, class string, budget int) History {
	valid := func(c History) bool {
		m, err := initialModelOf(st, c.Doc)
		if err != nil {
			return false
		}
		for _, s := range c.Steps {
			if !st.Valid(m, s) {
				return false
			}
			m.Apply(s)
		}
		return true
	}
	fails := func(c History) bool {
		if budget <= 0 || !valid(c) {
			return false
		}
		budget--
		v, _, err := Run(st, c)
		return err == nil && v != nil && v.Class == class
	}
	// cut after the violating step
	if v, _, err := Run(st, h); err == nil && v != nil && v.Step < 0 {
		return History{Doc: h.Doc, MapSalt: h.MapSalt}
	} else if err == nil && v != nil && v.Step+1 < len(h.Steps) {
		h.Steps = h.Steps[:v.Step+1]
	}
	// drop single steps, last first
	for changed := true; changed; {
		changed = false
		for i := len(h.Steps) - 2; i >= 0; i-- {
			c := History{Doc: h.Doc, MapSalt: h.MapSalt, Steps: append(append([]Step{}, h.Steps[:i]...), h.Steps[i+1:]...)}
			if fails(c) {
				h = c
				changed = true
			}
		}
	}
	// shrink step arguments (stores that can propose smaller variants of a step)
	if sh, ok := st.(StepShrinker); ok {
		for changed := true; changed; {
			changed = false
			for i := len(h.Steps) - 1; i >= 0; i-- {
				for _, smaller := range sh.ShrinkStep(h.Steps[i]) {
					c := History{Doc: h.Doc, MapSalt: h.MapSalt, Steps: append([]Step{}, h.Steps...)}
					c.Steps[i] = smaller
					if fails(c) {
						h = c
						changed = true
						break
					}
				}
			}
		}
	}
	// drop faults
	for i := range h.Steps {
		if h.Steps[i].Fault != nil {
			c := History{Doc: h.Doc, MapSalt: h.MapSalt, Steps: append([]Step{}, h.Steps...)}
			c.Steps[i].Fault = nil
			if fails(c) {
				h = c
			}
		}
	}
	return h
}

var initModels = map[string]Model{}

func initialModelOf(st Store, doc string) (Model, error) {
	key := st.ID() + "|" + doc
	if m, ok := initModels[key]; ok {
		return m.Clone(), nil
	}
	dir, err := mkScratch()
	if err != nil {
		return nil, err
	}
	defer rmScratch(dir)
	path := filepath.Join(dir, "doc.pdf")
	if err := st.Materialise(doc, path); err != nil {
		return nil, err
	}
	m, err := st.NewModel(path)
	if err != nil {
		return nil, err
	}
	initModels[key] = m
	return m.Clone(), nil
}

// stateDiff shows both states when short, the differing lines otherwise.
func stateDiff(obs, want string) string {
	if !strings.Contains(obs, "\n") {
		return fmt.Sprintf("observed: %s\nexpected: %s", obs, want)
	}
	o, w := strings.Split(obs, "\n"), strings.Split(want, "\n")
	var sb strings.Builder
	n := 0
	for i := 0; i < len(o) || i < len(w); i++ {
		var a, b string
		if i < len(o) {
			a = o[i]
		}
		if i < len(w) {
			b = w[i]
		}
		if a != b {
			fmt.Fprintf(&sb, "observed %s\nexpected %s\n", a, b)
			if n++; n >= 6 {
				sb.WriteString("...\n")
				break
			}
		}
	}
	return sb.String()
}

func sortedKeys[V any](m map[string]V) []string {
	var ks []string
	for k := range m {
		ks = append(ks, k)
	}
	sort.Strings(ks)
	return ks
}
