package docstore

import (
	"crypto/sha256"
	"encoding/hex"
	"fmt"
	"sort"
	"strings"

	"verif/pdfgen"
)

// Wide name trees "from another producer": pdfcpu's own trees are binary with up to three names per
// leaf; ISO 32000 allows any fan-out. genWideTreeDoc writes, independently of pdfcpu's writer, a
// document whose EmbeddedFiles name tree has three levels (root -> intermediate nodes -> leaves)
// with the given numbers of intermediate nodes, leaves per intermediate node and names per leaf,
// and returns it together with what it holds (key -> sha256 of the embedded bytes).
func genWideTreeDoc(mids, leavesPerMid, namesPerLeaf int) ([]byte, map[string]string) {
	pages := []pdfgen.PageSpec{{Marker: "WIDE-1"}, {Marker: "WIDE-2"}}
	base := pdfgen.ExtraBase(len(pages), 2)
	var objs []string
	next := func() int { return base + len(objs) }
	truth := map[string]string{}
	key := func(i int) string { return fmt.Sprintf("w%03d.dat", i) }
	lit := func(s string) string { return "(" + s + ")" }
	n := 0
	var midRefs []string
	for m := 0; m < mids; m++ {
		var leafRefs []string
		var midLo, midHi string
		// leaves of this intermediate node are reserved first so that kids are numbered in order
		type leaf struct{ keys []string }
		var leaves []leaf
		for l := 0; l < leavesPerMid; l++ {
			var lf leaf
			for k := 0; k < namesPerLeaf; k++ {
				lf.keys = append(lf.keys, key(n))
				n += 2 // gaps: names can later be inserted between existing ones
			}
			leaves = append(leaves, lf)
		}
		for _, lf := range leaves {
			var names strings.Builder
			for _, k := range lf.keys {
				data := attContent(k)
				h := sha256.Sum256(data)
				truth[k] = hex.EncodeToString(h[:])
				ef := next()
				objs = append(objs, fmt.Sprintf("<< /Type /EmbeddedFile /Length %d /Params << /Size %d /ModDate (D:20240101000000Z) >> >>\nstream\n%s\nendstream", len(data), len(data), data))
				fs := next()
				objs = append(objs, fmt.Sprintf("<< /Type /Filespec /F %s /UF %s /EF << /F %d 0 R >> >>", lit(k), lit(k), ef))
				fmt.Fprintf(&names, "%s %d 0 R ", lit(k), fs)
			}
			lo, hi := lf.keys[0], lf.keys[len(lf.keys)-1]
			if midLo == "" {
				midLo = lo
			}
			midHi = hi
			ref := next()
			objs = append(objs, fmt.Sprintf("<< /Limits [%s %s] /Names [%s] >>", lit(lo), lit(hi), names.String()))
			leafRefs = append(leafRefs, fmt.Sprintf("%d 0 R", ref))
		}
		ref := next()
		objs = append(objs, fmt.Sprintf("<< /Limits [%s %s] /Kids [%s] >>", lit(midLo), lit(midHi), strings.Join(leafRefs, " ")))
		midRefs = append(midRefs, fmt.Sprintf("%d 0 R", ref))
	}
	root := next()
	objs = append(objs, fmt.Sprintf("<< /Kids [%s] >>", strings.Join(midRefs, " ")))
	b := pdfgen.DocX(pages, 2, []int{0}, [][4]float64{{0, 0, 300, 400}}, pdfgen.Extra{
		Catalog: fmt.Sprintf("/Names << /EmbeddedFiles %d 0 R >>", root),
		Objects: objs})
	return b, truth
}

// genTreeDocKeys writes a document whose EmbeddedFiles name tree holds exactly keys (sorted here), as
// a three-level tree with leavesPerMid leaves of namesPerLeaf names under every intermediate node.
func genTreeDocKeys(keys []string, leavesPerMid, namesPerLeaf int) []byte {
	keys = append([]string(nil), keys...)
	sort.Strings(keys)
	pages := []pdfgen.PageSpec{{Marker: "MERGE-SRC-1"}, {Marker: "MERGE-SRC-2"}}
	base := pdfgen.ExtraBase(len(pages), 2)
	var objs []string
	next := func() int { return base + len(objs) }
	lit := func(s string) string {
		// PDF literal string with the delimiters and the backslash escaped
		r := strings.NewReplacer("\\", "\\\\", "(", "\\(", ")", "\\)")
		return "(" + r.Replace(s) + ")"
	}
	var midRefs []string
	for i := 0; i < len(keys); {
		var leafRefs []string
		var midLo, midHi string
		for l := 0; l < leavesPerMid && i < len(keys); l++ {
			var names strings.Builder
			lo := keys[i]
			hi := lo
			for k := 0; k < namesPerLeaf && i < len(keys); k++ {
				key := keys[i]
				i++
				hi = key
				data := attContent(key)
				ef := next()
				objs = append(objs, fmt.Sprintf("<< /Type /EmbeddedFile /Length %d /Params << /Size %d /ModDate (D:20240101000000Z) >> >>\nstream\n%s\nendstream", len(data), len(data), data))
				fs := next()
				objs = append(objs, fmt.Sprintf("<< /Type /Filespec /F %s /UF %s /EF << /F %d 0 R >> >>", lit(key), lit(key), ef))
				fmt.Fprintf(&names, "%s %d 0 R ", lit(key), fs)
			}
			if midLo == "" {
				midLo = lo
			}
			midHi = hi
			ref := next()
			objs = append(objs, fmt.Sprintf("<< /Limits [%s %s] /Names [%s] >>", lit(lo), lit(hi), names.String()))
			leafRefs = append(leafRefs, fmt.Sprintf("%d 0 R", ref))
		}
		ref := next()
		objs = append(objs, fmt.Sprintf("<< /Limits [%s %s] /Kids [%s] >>", lit(midLo), lit(midHi), strings.Join(leafRefs, " ")))
		midRefs = append(midRefs, fmt.Sprintf("%d 0 R", ref))
	}
	root := next()
	objs = append(objs, fmt.Sprintf("<< /Kids [%s] >>", strings.Join(midRefs, " ")))
	return pdfgen.DocX(pages, 2, []int{0}, [][4]float64{{0, 0, 300, 400}}, pdfgen.Extra{
		Catalog: fmt.Sprintf("/Names << /EmbeddedFiles %d 0 R >>", root),
		Objects: objs})
}

// wideShape parses "wide:MxLxN".
func wideShape(doc string) (mids, leaves, names int, ok bool) {
	if _, err := fmt.Sscanf(doc, "wide:%dx%dx%d", &mids, &leaves, &names); err != nil {
		return 0, 0, 0, false
	}
	return mids, leaves, names, true
}
