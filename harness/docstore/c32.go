package docstore

import (
	"bytes"
	"crypto/sha256"
	"encoding/hex"
	"encoding/json"
	"fmt"
	"io"
	"math/rand/v2"
	"os"
	"path/filepath"
	"sort"
	"strconv"
	"strings"

	"github.com/pdfcpu/pdfcpu/pkg/api"
	"github.com/pdfcpu/pdfcpu/pkg/pdfcpu"
	"github.com/pdfcpu/pdfcpu/pkg/pdfcpu/model"
	"github.com/pdfcpu/pdfcpu/pkg/pdfcpu/types"
	"verif/core"
	"verif/pdfgen"
)

// ---------------------------------------------------------------- C32: page operations
//
// Reference model: a list of pages, each with a content identity (hash of the decoded content
// stream; generated documents put a unique marker text on every page), an effective rotation and
// its page boxes. Selections are explicit page numbers and simple ranges.

type rect [4]float64

type pg struct {
	Marker                 string
	Rot                    int
	Media                  rect
	Crop, Trim, Bleed, Art *rect
}

func (p pg) String() string {
	b := func(r *rect) string {
		if r == nil {
			return "-"
		}
		return fmt.Sprintf("[%g %g %g %g]", r[0], r[1], r[2], r[3])
	}
	rot := fmt.Sprintf("r%d", p.Rot)
	if p.Marker == "blank" {
		rot = "r?" // the statement does not say which rotation an inserted blank page has
	}
	crop := p.Crop
	if crop != nil && *crop == p.Media {
		crop = nil // a crop box equal to the media box is the default
	}
	return fmt.Sprintf("%s %s m[%g %g %g %g] c%s t%s b%s a%s", p.Marker, rot, p.Media[0], p.Media[1], p.Media[2], p.Media[3], b(crop), b(p.Trim), b(p.Bleed), b(p.Art))
}

type c32Model struct{ Pages []pg }

func (m *c32Model) Clone() Model {
	c := &c32Model{Pages: make([]pg, len(m.Pages))}
	for i, p := range m.Pages {
		cp := p
		for _, f := range []**rect{&cp.Crop, &cp.Trim, &cp.Bleed, &cp.Art} {
			if *f != nil {
				r := **f
				*f = &r
			}
		}
		c.Pages[i] = cp
	}
	return c
}

func (m *c32Model) String() string {
	var sb strings.Builder
	fmt.Fprintf(&sb, "%d pages:", len(m.Pages))
	for i, p := range m.Pages {
		fmt.Fprintf(&sb, "\n  %d: %s", i+1, p)
	}
	return sb.String()
}

type c32Args struct {
	Sel    []string `json:"sel,omitempty"`   // page selection as given to the API
	Pages  []int    `json:"pages,omitempty"` // the same, expanded (what the selection means)
	Deg    int      `json:"deg,omitempty"`
	Before bool     `json:"before,omitempty"`
	Box    string   `json:"box,omitempty"` // crop trim bleed art
	Rect   *rect    `json:"rect,omitempty"`
	Spec   *boxSpec `json:"spec,omitempty"` // box given relative to its parent box instead of as a rectangle
}

// boxSpec is a box definition relative to the parent box (media box for the crop box; crop box, or
// the media box where there is none, for trim/bleed/art), in the forms pdfcpu documents
// (model.ParseBox): dimensions anchored within the parent with an optional offset, or margins.
type boxSpec struct {
	Kind   string     `json:"kind"`        // dim | dimpct | margin1 | margin4 | marginpct
	W      float64    `json:"w,omitempty"` // dim: points; dimpct: percent of the parent's width/height
	H      float64    `json:"h,omitempty"`
	Anchor string     `json:"anchor,omitempty"` // tl tc tr l c r bl bc br ("" = c, the documented default)
	DX     int        `json:"dx,omitempty"`
	DY     int        `json:"dy,omitempty"`
	M      [4]float64 `json:"m,omitempty"` // margins top right bottom left (margin1/marginpct: M[0] only)
}

// Text is the definition string handed to api.Box.
func (b boxSpec) Text() string {
	switch b.Kind {
	case "dim", "dimpct":
		var parts []string
		if b.Anchor != "" {
			parts = append(parts, "pos:"+b.Anchor)
		}
		if b.DX != 0 || b.DY != 0 {
			parts = append(parts, fmt.Sprintf("off:%d %d", b.DX, b.DY))
		}
		if b.Kind == "dim" {
			parts = append(parts, fmt.Sprintf("dim:%g %g", b.W, b.H))
		} else {
			parts = append(parts, fmt.Sprintf("dim:%g%% %g%%", b.W, b.H))
		}
		return strings.Join(parts, ", ")
	case "margin1":
		return fmt.Sprintf("%g", b.M[0])
	case "margin4":
		return fmt.Sprintf("%g %g %g %g", b.M[0], b.M[1], b.M[2], b.M[3])
	case "marginpct":
		return fmt.Sprintf("%g%%", b.M[0])
	}
	return ""
}

// Resolve computes the rectangle the definition denotes within parent, from the documented meaning
// of the forms (plain geometry, written independently of pdfcpu's implementation).
func (b boxSpec) Resolve(parent rect) rect {
	pw, ph := parent[2]-parent[0], parent[3]-parent[1]
	switch b.Kind {
	case "dim", "dimpct":
		w, h := b.W, b.H
		if b.Kind == "dimpct" {
			w, h = pw*b.W/100, ph*b.H/100
		}
		a := b.Anchor
		if a == "" {
			a = "c"
		}
		var x, y float64
		switch { // horizontal
		case strings.HasSuffix(a, "l"):
			x = parent[0]
		case strings.HasSuffix(a, "r"):
			x = parent[2] - w
		default: // c, tc, bc
			x = parent[0] + (pw-w)/2
		}
		switch { // vertical
		case strings.HasPrefix(a, "t"):
			y = parent[3] - h
		case strings.HasPrefix(a, "b"):
			y = parent[1]
		default: // l, c, r
			y = parent[1] + (ph-h)/2
		}
		x, y = x+float64(b.DX), y+float64(b.DY)
		return rect{x, y, x + w, y + h}
	case "margin1":
		return rect{parent[0] + b.M[0], parent[1] + b.M[0], parent[2] - b.M[0], parent[3] - b.M[0]}
	case "margin4":
		return rect{parent[0] + b.M[3], parent[1] + b.M[2], parent[2] - b.M[1], parent[3] - b.M[0]}
	case "marginpct":
		return rect{parent[0] + pw*b.M[0]/100, parent[1] + ph*b.M[0]/100, parent[2] - pw*b.M[0]/100, parent[3] - ph*b.M[0]/100}
	}
	return parent
}

func roundRect(r rect) rect { return rect{round2(r[0]), round2(r[1]), round2(r[2]), round2(r[3])} }

// boxFor is the rectangle a box-add / crop step gives page p.
func (a c32Args) boxFor(p pg, box string) rect {
	if a.Spec == nil {
		return *a.Rect
	}
	parent := p.Media
	if box != "crop" && p.Crop != nil {
		parent = *p.Crop
	}
	return roundRect(a.Spec.Resolve(parent))
}

func inSet(pages []int) map[int]bool {
	s := map[int]bool{}
	for _, p := range pages {
		s[p] = true
	}
	return s
}

func (m *c32Model) Apply(s Step) bool {
	var a c32Args
	json.Unmarshal(s.Args, &a)
	n := len(m.Pages)
	for _, p := range a.Pages {
		if p < 1 || p > n {
			return false
		}
	}
	if len(a.Pages) == 0 {
		return false
	}
	sel := inSet(a.Pages)
	switch s.Op {
	case "rotate":
		for i := range m.Pages {
			if sel[i+1] {
				m.Pages[i].Rot = ((m.Pages[i].Rot+a.Deg)%360 + 360) % 360
			}
		}
		return true
	case "remove":
		if len(sel) >= n {
			return false
		}
		var out []pg
		for i, p := range m.Pages {
			if !sel[i+1] {
				out = append(out, p)
			}
		}
		m.Pages = out
		return true
	case "trim":
		var out []pg
		for i, p := range m.Pages {
			if sel[i+1] {
				out = append(out, p)
			}
		}
		m.Pages = out
		return true
	case "collect":
		var out []pg
		for _, p := range a.Pages {
			out = append(out, m.Clone().(*c32Model).Pages[p-1])
		}
		m.Pages = out
		return true
	case "insert":
		var out []pg
		for i, p := range m.Pages {
			blank := pg{Marker: "blank", Rot: p.Rot, Media: p.Media}
			if sel[i+1] && a.Before {
				out = append(out, blank)
			}
			out = append(out, p)
			if sel[i+1] && !a.Before {
				out = append(out, blank)
			}
		}
		m.Pages = out
		return true
	case "box-add":
		for i := range m.Pages {
			if sel[i+1] {
				r := a.boxFor(m.Pages[i], a.Box)
				switch a.Box {
				case "crop":
					m.Pages[i].Crop = &r
				case "trim":
					m.Pages[i].Trim = &r
				case "bleed":
					m.Pages[i].Bleed = &r
				case "art":
					m.Pages[i].Art = &r
				}
			}
		}
		return true
	case "box-remove":
		for i := range m.Pages {
			if sel[i+1] {
				switch a.Box {
				case "crop":
					m.Pages[i].Crop = nil
				case "trim":
					m.Pages[i].Trim = nil
				case "bleed":
					m.Pages[i].Bleed = nil
				case "art":
					m.Pages[i].Art = nil
				}
			}
		}
		return true
	case "crop":
		for i := range m.Pages {
			if sel[i+1] {
				r := a.boxFor(m.Pages[i], "crop")
				m.Pages[i].Crop = &r
			}
		}
		return true
	}
	return false
}

type c32Store struct{}

func (c32Store) ID() string { return "C32" }
func (c32Store) Docs() []string {
	return []string{"gen:7", "gen:2", "gen:19", "gen:30", "zineTest.pdf", "testRot.pdf"}
}

// genDoc returns the document bytes and, independently of any reader, what its pages are.
func genDoc(n int) ([]byte, []pg) {
	rng := rand.New(rand.NewPCG(uint64(n), 32))
	var pages []pdfgen.PageSpec
	var truth []pg
	groupRot := []int{0, 90, 180}
	// some media boxes do not start at the origin; all contain [100,280] x [50,320], where absolute boxes are drawn
	groupBox := [][4]float64{{0, 0, 300, 400}, {50, 30, 550, 330}}
	for i := 0; i < n; i++ {
		p := pdfgen.PageSpec{Marker: fmt.Sprintf("PAGE-%02d-of-%02d-marker", i+1, n)}
		g := i / 3
		t := pg{Rot: groupRot[g%3], Media: rect(groupBox[g%2])}
		h := sha256.Sum256([]byte(fmt.Sprintf("BT /F1 18 Tf 40 100 Td (%s) Tj ET", p.Marker)))
		t.Marker = hex.EncodeToString(h[:5])
		if rng.IntN(3) == 0 {
			r := []int{0, 90, 180, 270}[rng.IntN(4)]
			p.Rotate = &r
			t.Rot = r
		}
		if rng.IntN(4) == 0 {
			b := [4]float64{0, 0, float64(300 + 50*rng.IntN(5)), float64(350 + 50*rng.IntN(5))}
			switch rng.IntN(3) {
			case 0:
				b = [4]float64{100, 50, b[2] + 100, b[3] + 50}
			case 1:
				b = [4]float64{-50, -50, b[2] - 50 + 50, b[3] - 50 + 50}
			}
			p.MediaBox = &b
			t.Media = rect(b)
		}
		if rng.IntN(6) == 0 {
			b := [4]float64{110, 60, 250, 300}
			p.CropBox = &b
			c := rect(b)
			t.Crop = &c
		}
		pages = append(pages, p)
		truth = append(truth, t)
	}
	return pdfgen.Doc(pages, 3, groupRot, groupBox), truth
}

func (c32Store) Materialise(doc, path string) error {
	if strings.HasPrefix(doc, "gen:") {
		n, _ := strconv.Atoi(strings.TrimPrefix(doc, "gen:"))
		b, _ := genDoc(n)
		return os.WriteFile(path, b, 0644)
	}
	b, err := os.ReadFile(filepath.Join("/repo/pkg/testdata", doc))
	if err != nil {
		return err
	}
	return os.WriteFile(path, b, 0644)
}
func (c32Store) SetupAux(string) error { return nil }

// Equivalent: the same text up to 0.011 in every number (box coordinates are computed in floating
// point on both sides and printed with two decimals; x.xx5 may round either way).
func (c32Store) Equivalent(obs, want string) bool {
	split := func(s string) []string {
		return strings.FieldsFunc(s, func(r rune) bool { return r == ' ' || r == '[' || r == ']' || r == '\n' })
	}
	a, b := split(obs), split(want)
	if len(a) != len(b) {
		return false
	}
	for i := range a {
		if a[i] == b[i] {
			continue
		}
		x, err1 := strconv.ParseFloat(a[i], 64)
		y, err2 := strconv.ParseFloat(b[i], 64)
		if err1 != nil || err2 != nil || x-y > 0.011 || y-x > 0.011 {
			return false
		}
	}
	return true
}

func (c32Store) Families() []string { return []string{"rotate", "pages", "boxes"} }
func (c32Store) Family(op string) string {
	switch op {
	case "rotate":
		return "rotate"
	case "box-add", "box-remove", "crop":
		return "boxes"
	}
	return "pages"
}
func (c32Store) Structural(string, Model) error { return nil }

func toRect(b *model.Box) *rect {
	if b == nil || b.Rect == nil {
		return nil
	}
	r := rect{round2(b.Rect.LL.X), round2(b.Rect.LL.Y), round2(b.Rect.UR.X), round2(b.Rect.UR.Y)}
	return &r
}

func round2(f float64) float64 { return float64(int64(f*100+0.5*sign(f))) / 100 }
func sign(f float64) float64 {
	if f < 0 {
		return -1
	}
	return 1
}

func (c32Store) observe(path string) (*c32Model, error) {
	b, err := os.ReadFile(path)
	if err != nil {
		return nil, err
	}
	conf := dsConf()
	ctx, err := api.ReadContext(bytes.NewReader(b), conf)
	if err != nil {
		return nil, fmt.Errorf("read: %w", err)
	}
	if err := api.ValidateContext(ctx); err != nil {
		return nil, fmt.Errorf("validate: %w", err)
	}
	pbs, err := ctx.PageBoundaries(nil)
	if err != nil {
		return nil, fmt.Errorf("page boundaries: %w", err)
	}
	if len(pbs) != ctx.PageCount {
		return nil, fmt.Errorf("%d page boundaries for %d pages", len(pbs), ctx.PageCount)
	}
	m := &c32Model{}
	for i := 1; i <= ctx.PageCount; i++ {
		pb := pbs[i-1]
		p := pg{Rot: ((pb.Rot % 360) + 360) % 360}
		if md := toRect(pb.Media); md != nil {
			p.Media = *md
		}
		// only boxes that are really set on the page (or inherited from a parent), not pdfcpu's defaults
		d, _, inh, err := ctx.PageDict(i, false)
		if err != nil {
			return nil, fmt.Errorf("page %d: %w", i, err)
		}
		has := func(k string) bool { _, ok := d.Find(k); return ok }
		if has("CropBox") || (inh != nil && inh.CropBox != nil) {
			p.Crop = toRect(pb.Crop)
		}
		if has("TrimBox") {
			p.Trim = toRect(pb.Trim)
		}
		if has("BleedBox") {
			p.Bleed = toRect(pb.Bleed)
		}
		if has("ArtBox") {
			p.Art = toRect(pb.Art)
		}
		r, err := pdfcpu.ExtractPageContent(ctx, i)
		if err != nil {
			return nil, fmt.Errorf("page %d content: %w", i, err)
		}
		p.Marker = "blank"
		if r != nil {
			data, err := io.ReadAll(r)
			if err != nil {
				return nil, err
			}
			if len(bytes.TrimSpace(data)) > 0 {
				h := sha256.Sum256(bytes.TrimSpace(data))
				p.Marker = hex.EncodeToString(h[:5])
			}
		}
		m.Pages = append(m.Pages, p)
	}
	return m, nil
}

func (s c32Store) NewModel(path string) (Model, error) {
	// generated documents: the model is the generator's own description, not what pdfcpu reads
	b, err := os.ReadFile(path)
	if err != nil {
		return nil, err
	}
	for _, d := range s.Docs() {
		if strings.HasPrefix(d, "gen:") {
			n, _ := strconv.Atoi(strings.TrimPrefix(d, "gen:"))
			if gb, truth := genDoc(n); bytes.Equal(gb, b) {
				return &c32Model{Pages: truth}, nil
			}
		}
	}
	return s.observe(path)
}
func (s c32Store) Observe(path string) (string, error) {
	m, err := s.observe(path)
	if err != nil {
		return "", err
	}
	return m.String(), nil
}

func (c32Store) Valid(mm Model, s Step) bool {
	m := mm.(*c32Model)
	var a c32Args
	json.Unmarshal(s.Args, &a)
	for _, p := range a.Pages {
		if p < 1 || p > len(m.Pages) {
			return false // the selection was drawn for a longer document
		}
	}
	return len(m.Pages) > 0
}

// selection draws page numbers and their unambiguous textual form.
func selection(rng *rand.Rand, n int, ordered bool) ([]string, []int) {
	var sel []string
	var pages []int
	if !ordered && n >= 3 && rng.IntN(4) == 0 {
		// a range with one or two of its pages taken out again: "a-b,!x,!y"
		a := 1 + rng.IntN(n-2)
		b := a + 2 + rng.IntN(min(4, n-a-1))
		sel = append(sel, fmt.Sprintf("%d-%d", a, b))
		out := map[int]bool{}
		for i := 0; i < 1+rng.IntN(2); i++ {
			x := a + rng.IntN(b-a+1)
			if !out[x] {
				out[x] = true
				sel = append(sel, fmt.Sprintf("!%d", x))
			}
		}
		for p := a; p <= b; p++ {
			if !out[p] {
				pages = append(pages, p)
			}
		}
		return sel, pages
	}
	k := 1 + rng.IntN(3)
	for i := 0; i < k; i++ {
		a := 1 + rng.IntN(n)
		if rng.IntN(3) == 0 && a < n && !ordered {
			b := a + 1 + rng.IntN(min(3, n-a))
			sel = append(sel, fmt.Sprintf("%d-%d", a, b))
			for p := a; p <= b; p++ {
				pages = append(pages, p)
			}
		} else {
			sel = append(sel, strconv.Itoa(a))
			pages = append(pages, a)
		}
	}
	if !ordered {
		set := inSet(pages)
		pages = pages[:0]
		for p := range set {
			pages = append(pages, p)
		}
		sort.Ints(pages)
	}
	return sel, pages
}

func (c32Store) Gen(rng *rand.Rand, mm Model, aux string) Step {
	m := mm.(*c32Model)
	n := len(m.Pages)
	mk := func(op string, a c32Args) Step {
		b, _ := json.Marshal(a)
		return Step{Op: op, Args: b}
	}
	boxes := []string{"crop", "trim", "bleed", "art"}
	for {
		switch rng.IntN(10) {
		case 0, 1:
			sel, pages := selection(rng, n, false)
			return mk("rotate", c32Args{Sel: sel, Pages: pages, Deg: []int{90, 180, 270, -90}[rng.IntN(4)]})
		case 2:
			sel, pages := selection(rng, n, false)
			if len(pages) < n {
				return mk("remove", c32Args{Sel: sel, Pages: pages})
			}
		case 3:
			if n > 2 {
				sel, pages := selection(rng, n, false)
				return mk("trim", c32Args{Sel: sel, Pages: pages})
			}
		case 4:
			sel, pages := selection(rng, n, true)
			return mk("collect", c32Args{Sel: sel, Pages: pages})
		case 5, 6:
			if n < 40 {
				sel, pages := selection(rng, n, false)
				return mk("insert", c32Args{Sel: sel, Pages: pages, Before: rng.IntN(2) == 0})
			}
		case 7:
			sel, pages := selection(rng, n, false)
			if rng.IntN(2) == 0 {
				return mk("box-add", c32Args{Sel: sel, Pages: pages, Box: boxes[rng.IntN(4)], Spec: genBoxSpec(rng)})
			}
			r := rect{float64(100 + 5*rng.IntN(4)), float64(50 + 5*rng.IntN(4)), float64(200 + 10*rng.IntN(8)), float64(250 + 10*rng.IntN(8))}
			return mk("box-add", c32Args{Sel: sel, Pages: pages, Box: boxes[rng.IntN(4)], Rect: &r})
		case 8:
			sel, pages := selection(rng, n, false)
			return mk("box-remove", c32Args{Sel: sel, Pages: pages, Box: boxes[rng.IntN(4)]})
		case 9:
			sel, pages := selection(rng, n, false)
			if rng.IntN(2) == 0 {
				return mk("crop", c32Args{Sel: sel, Pages: pages, Spec: genBoxSpec(rng)})
			}
			r := rect{float64(100 + 5*rng.IntN(4)), float64(50 + 5*rng.IntN(4)), float64(200 + 10*rng.IntN(8)), float64(250 + 10*rng.IntN(8))}
			return mk("crop", c32Args{Sel: sel, Pages: pages, Rect: &r})
		}
	}
}

func mbox(r *rect) *model.Box {
	return &model.Box{Rect: types.NewRectangle(r[0], r[1], r[2], r[3])}
}

// genBoxSpec draws a parent-relative box definition that stays inside every parent the documents
// and earlier steps can produce (the smallest parent is 40 x 40).
func genBoxSpec(rng *rand.Rand) *boxSpec {
	anchors := []string{"", "tl", "tc", "tr", "l", "c", "r", "bl", "bc", "br"}
	switch rng.IntN(6) {
	case 0, 1:
		b := &boxSpec{Kind: "dim", W: float64(20 + 2*rng.IntN(8)), H: float64(20 + 2*rng.IntN(8)), Anchor: anchors[rng.IntN(len(anchors))]}
		if rng.IntN(3) == 0 {
			b.DX, b.DY = rng.IntN(5)-2, rng.IntN(5)-2
		}
		return b
	case 2:
		return &boxSpec{Kind: "dimpct", W: float64(50 + 10*rng.IntN(5)), H: float64(50 + 10*rng.IntN(5)), Anchor: anchors[rng.IntN(len(anchors))]}
	case 3:
		return &boxSpec{Kind: "margin1", M: [4]float64{float64(2 + rng.IntN(4))}}
	case 4:
		return &boxSpec{Kind: "margin4", M: [4]float64{float64(2 + rng.IntN(3)), float64(2 + rng.IntN(3)), float64(2 + rng.IntN(3)), float64(2 + rng.IntN(3))}}
	default:
		return &boxSpec{Kind: "marginpct", M: [4]float64{float64(5 * (1 + rng.IntN(3)))}}
	}
}

// apiBox turns a step's box into the model.Box the API takes: an explicit rectangle, or the
// definition string parsed by pdfcpu's own parser (the documented user-facing form).
func apiBox(a c32Args) (*model.Box, error) {
	if a.Spec == nil {
		return mbox(a.Rect), nil
	}
	return api.Box(a.Spec.Text(), types.POINTS)
}

func (c32Store) Exec(s Step, path, aux string) error {
	var a c32Args
	json.Unmarshal(s.Args, &a)
	switch s.Op {
	case "rotate":
		return api.RotateFile(path, "", a.Deg, a.Sel, dsConf())
	case "remove":
		return api.RemovePagesFile(path, "", a.Sel, dsConf())
	case "trim":
		return api.TrimFile(path, "", a.Sel, dsConf())
	case "collect":
		return api.CollectFile(path, "", a.Sel, dsConf())
	case "insert":
		return api.InsertPagesFile(path, "", a.Sel, a.Before, nil, dsConf())
	case "box-add":
		pb := &model.PageBoundaries{}
		b, err := apiBox(a)
		if err != nil {
			return fmt.Errorf("harness: box definition %q: %w", a.Spec.Text(), err)
		}
		switch a.Box {
		case "crop":
			pb.Crop = b
		case "trim":
			pb.Trim = b
		case "bleed":
			pb.Bleed = b
		case "art":
			pb.Art = b
		}
		return api.AddBoxesFile(path, "", a.Sel, pb, dsConf())
	case "box-remove":
		pb, err := api.PageBoundariesFromBoxList(a.Box)
		if err != nil {
			return err
		}
		return api.RemoveBoxesFile(path, "", a.Sel, pb, dsConf())
	case "crop":
		b, err := apiBox(a)
		if err != nil {
			return fmt.Errorf("harness: box definition %q: %w", a.Spec.Text(), err)
		}
		return api.CropFile(path, "", a.Sel, b, dsConf())
	}
	return fmt.Errorf("harness: unknown op %s", s.Op)
}

func init() {
	core.Register(histProp{id: "C32", store: c32Store{}, maxLen: 8, quickN: 30, thoroughN: 1500,
		rule:        "seeded histories of 1-8 page operations (rotate by +-90/180/270, remove, trim, collect with repetitions, insert blank pages before/after, add/remove crop/trim/bleed/art boxes and crop, with the box given as an absolute rectangle or relative to its parent box: dimensions in points or percent anchored at one of nine positions with an optional offset, one or four absolute margins, a percentage margin) with explicit page numbers, simple ranges and ranges with excluded pages (a-b,!x) as selections, on documents written by an independent generator (2-30 pages, unique marker text per page, /Rotate and /MediaBox partly inherited from intermediate page-tree nodes, mixed rotations and sizes, media boxes that do not start at the origin) and on corpus files. After every step page count, per-page content identity, effective rotation and the boxes are compared with a page-list model; unselected pages must be identical to the previous step. Faults/crash snapshots per step as for C35. Distinct by (document, step sequence); non-trivial when a step succeeded.",
		assumptions: []string{"page content identity is the hash of the decoded content stream as pdfcpu extracts it", "selection syntax beyond explicit numbers, a-b ranges and !x exclusions is C31's subject and not used"}})
}
