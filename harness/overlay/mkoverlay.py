#!/usr/bin/env python3
"""Generate the build overlay that puts the simulator's seam under package os (and, for the
scheduler, package sync). Nothing in /repo or GOROOT is written: patched copies go to <outdir>
and overlay.json maps the GOROOT paths to them.

usage: mkoverlay.py <GOROOT> <outdir> [extra overlay entries "dst=src" ...]
Exit 2 on any anchor mismatch (toolchain differs from what the seam was written for)."""
import json, os, sys

def die(msg):
    sys.stderr.write("mkoverlay: " + msg + "\n")
    sys.exit(2)

# (file, exact declaration header, replacement header) -- each must match exactly once.
OS_RENAMES = [
    ("tempfile.go", "\treturn strconv.FormatUint(uint64(uint32(runtime_rand())), 10)", "\treturn strconv.FormatUint(uint64(uint32(runtime_rand()+verifTempSeq.Add(1)*0x9E3779B1)), 10)"),
    ("file.go", "func (f *File) Read(b []byte) (n int, err error) {", "func (f *File) verifOrigRead(b []byte) (n int, err error) {"),
    ("file.go", "func (f *File) ReadAt(b []byte, off int64) (n int, err error) {", "func (f *File) verifOrigReadAt(b []byte, off int64) (n int, err error) {"),
    ("file.go", "func (f *File) ReadFrom(r io.Reader) (n int64, err error) {", "func (f *File) verifOrigReadFrom(r io.Reader) (n int64, err error) {"),
    ("file.go", "func (f *File) Write(b []byte) (n int, err error) {", "func (f *File) verifOrigWrite(b []byte) (n int, err error) {"),
    ("file.go", "func (f *File) WriteAt(b []byte, off int64) (n int, err error) {", "func (f *File) verifOrigWriteAt(b []byte, off int64) (n int, err error) {"),
    ("file.go", "func (f *File) WriteTo(w io.Writer) (n int64, err error) {", "func (f *File) verifOrigWriteTo(w io.Writer) (n int64, err error) {"),
    ("file.go", "func Mkdir(name string, perm FileMode) error {", "func verifOrigMkdir(name string, perm FileMode) error {"),
    ("file.go", "func OpenFile(name string, flag int, perm FileMode) (*File, error) {", "func verifOrigOpenFile(name string, flag int, perm FileMode) (*File, error) {"),
    ("file.go", "func openDir(name string) (*File, error) {", "func verifOrigopenDir(name string) (*File, error) {"),
    ("file.go", "func Rename(oldpath, newpath string) error {", "func verifOrigRename(oldpath, newpath string) error {"),
    ("file.go", "func Chmod(name string, mode FileMode) error { return chmod(name, mode) }", "func verifOrigChmod(name string, mode FileMode) error { return chmod(name, mode) }"),
    ("file.go", "func (f *File) Chmod(mode FileMode) error { return f.chmod(mode) }", "func (f *File) verifOrigChmod(mode FileMode) error { return f.chmod(mode) }"),
    ("file_unix.go", "func Truncate(name string, size int64) error {", "func verifOrigTruncate(name string, size int64) error {"),
    ("file_unix.go", "func Remove(name string) error {", "func verifOrigRemove(name string) error {"),
    ("file_unix.go", "func Link(oldname, newname string) error {", "func verifOrigLink(oldname, newname string) error {"),
    ("file_unix.go", "func Symlink(oldname, newname string) error {", "func verifOrigSymlink(oldname, newname string) error {"),
    ("file_posix.go", "func (f *File) Close() error {", "func (f *File) verifOrigClose() error {"),
    ("file_posix.go", "func (f *File) Truncate(size int64) error {", "func (f *File) verifOrigTruncate(size int64) error {"),
    ("file_posix.go", "func (f *File) Sync() error {", "func (f *File) verifOrigSync() error {"),
    ("file_posix.go", "func Chtimes(name string, atime time.Time, mtime time.Time) error {", "func verifOrigChtimes(name string, atime time.Time, mtime time.Time) error {"),
    ("stat.go", "func Stat(name string) (FileInfo, error) {", "func verifOrigStat(name string) (FileInfo, error) {"),
    ("stat.go", "func Lstat(name string) (FileInfo, error) {", "func verifOrigLstat(name string) (FileInfo, error) {"),
    ("stat_unix.go", "func (f *File) Stat() (FileInfo, error) {", "func (f *File) verifOrigStat() (FileInfo, error) {"),
    ("dir_unix.go", "func (f *File) readdir(n int, mode readdirMode) (names []string, dirents []DirEntry, infos []FileInfo, err error) {", "func (f *File) verifOrigreaddir(n int, mode readdirMode) (names []string, dirents []DirEntry, infos []FileInfo, err error) {"),
    ("path.go", "func RemoveAll(path string) error {", "func verifOrigRemoveAll(path string) error {"),
]

NET_RENAMES = [
    ("lookup.go", "func (r *Resolver) lookupIPAddr(ctx context.Context, network, host string) ([]IPAddr, error) {", "func (r *Resolver) verifOriglookupIPAddr(ctx context.Context, network, host string) ([]IPAddr, error) {"),
    ("lookup_unix.go", "func (r *Resolver) lookupHost(ctx context.Context, host string) (addrs []string, err error) {", "func (r *Resolver) verifOriglookupHost(ctx context.Context, host string) (addrs []string, err error) {"),
    ("dial.go", "func (d *Dialer) DialContext(ctx context.Context, network, address string) (Conn, error) {", "func (d *Dialer) verifOrigDialContext(ctx context.Context, network, address string) (Conn, error) {"),
]

SYNC_RENAMES = [
    ("mutex.go", "func (m *Mutex) Lock() {", "func (m *Mutex) verifOrigLock() {"),
    ("mutex.go", "func (m *Mutex) Unlock() {", "func (m *Mutex) verifOrigUnlock() {"),
    ("rwmutex.go", "func (rw *RWMutex) Lock() {", "func (rw *RWMutex) verifOrigLock() {"),
    ("rwmutex.go", "func (rw *RWMutex) Unlock() {", "func (rw *RWMutex) verifOrigUnlock() {"),
    ("rwmutex.go", "func (rw *RWMutex) RLock() {", "func (rw *RWMutex) verifOrigRLock() {"),
    ("rwmutex.go", "func (rw *RWMutex) RUnlock() {", "func (rw *RWMutex) verifOrigRUnlock() {"),
    ("pool.go", "func (p *Pool) Put(x any) {", "func (p *Pool) verifOrigPut(x any) {"),
    ("pool.go", "func (p *Pool) Get() any {", "func (p *Pool) verifOrigGet() any {"),
]

# package runtime: the source of map seeds / iteration offsets and the process-wide hash key become
# deterministic (Go randomises map iteration order from them; a simulated run must not depend on a
# random source the simulator does not own)
RUNTIME_RENAMES = [
    ("rand.go", "func rand() uint64 {\n", "func rand() uint64 {\n\tif verifDetRand {\n\t\treturn verifMapRand()\n\t}\n"),
    ("alg.go", "\t\thashkey[i] = uintptr(bootstrapRand())", "\t\thashkey[i] = uintptr(verifHashKey(i))"),
    ("alg.go", "\t\tkey[i] = bootstrapRand()", "\t\tkey[i] = verifHashKey(i)"),
]

# package time: Now reads the simulator's clock while one is installed
TIME_RENAMES = [
    ("time.go", "func Now() Time {", "func verifOrigNow() Time {"),
]

# files that exist only in the overlay: export shims giving the harness the real unexported constructors
REPO_SHIMS = {
    "/repo/pkg/pdfcpu/primitives/zz_verif_export.go": """// added by /verif through go build -overlay; not part of the repository
package primitives

// VerifImageBoxFetch runs the real resource path of an image box (imageBoxRemoteURL,
// remoteResource, imageBoxHTTPClient) for src and discards the body.
func VerifImageBoxFetch(src string, timeoutSec int) error {
	pdf := &PDF{Timeout: timeoutSec}
	ib := &ImageBox{pdf: pdf, Src: src}
	rc, err := ib.resource()
	if rc != nil {
		rc.Close()
	}
	return err
}
""",
    "/repo/pkg/pdfcpu/sign/zz_verif_export.go": """// added by /verif through go build -overlay; not part of the repository
package sign

import (
	"net/http"
	"time"
)

// VerifRevocationHTTPClient is the real unexported constructor used for CRL and OCSP fetches.
func VerifRevocationHTTPClient(t time.Duration, hosts []string) *http.Client {
	return revocationHTTPClient(t, hosts)
}

// VerifValidateRevocationURLString is the real pre-flight check applied to every CRL/OCSP URL.
func VerifValidateRevocationURLString(s string) error { return validateRevocationURLString(s) }
""",
}

def patch_pkg(goroot, out, pkg, renames, zzsrc, replace):
    here = os.path.dirname(os.path.abspath(__file__))
    os.makedirs(os.path.join(out, pkg), exist_ok=True)
    files = {}
    for fn, old, new in renames:
        p = os.path.join(goroot, "src", pkg, fn)
        if fn not in files:
            try:
                files[fn] = open(p).read()
            except OSError as e:
                die(str(e))
        if files[fn].count(old) != 1:
            die("anchor %r matched %d times in %s" % (old, files[fn].count(old), p))
        files[fn] = files[fn].replace(old, new)
    for fn, src in files.items():
        dst = os.path.join(out, pkg, fn)
        with open(dst, "w") as f:
            f.write(src)
        replace[os.path.join(goroot, "src", pkg, fn)] = dst
    zz = os.path.join(out, pkg, "zz_verif.go")
    with open(zz, "w") as f:
        f.write(open(os.path.join(here, zzsrc)).read())
    replace[os.path.join(goroot, "src", pkg, "zz_verif.go")] = zz

def main():
    if len(sys.argv) < 3:
        die("usage: mkoverlay.py <GOROOT> <outdir> [dst=src ...]")
    goroot, out = sys.argv[1], sys.argv[2]
    here = os.path.dirname(os.path.abspath(__file__))
    os.makedirs(os.path.join(out, "os"), exist_ok=True)
    replace = {}
    files = {}
    for fn, old, new in OS_RENAMES:
        p = os.path.join(goroot, "src", "os", fn)
        if fn not in files:
            try:
                files[fn] = open(p).read()
            except OSError as e:
                die(str(e))
        if files[fn].count(old) != 1:
            die("anchor %r matched %d times in %s" % (old, files[fn].count(old), p))
        files[fn] = files[fn].replace(old, new)
    for fn, src in files.items():
        dst = os.path.join(out, "os", fn)
        with open(dst, "w") as f:
            f.write(src)
        replace[os.path.join(goroot, "src", "os", fn)] = dst
    zz = os.path.join(out, "os", "zz_verif.go")
    with open(zz, "w") as f:
        f.write(open(os.path.join(here, "zz_verif_os.go.txt")).read())
    replace[os.path.join(goroot, "src", "os", "zz_verif.go")] = zz
    patch_pkg(goroot, out, "net", NET_RENAMES, "zz_verif_net.go.txt", replace)
    patch_pkg(goroot, out, "sync", SYNC_RENAMES, "zz_verif_sync.go.txt", replace)
    patch_pkg(goroot, out, "runtime", RUNTIME_RENAMES, "zz_verif_runtime.go.txt", replace)
    patch_pkg(goroot, out, "net/http", [], "zz_verif_nethttp.go.txt", replace)
    patch_pkg(goroot, out, "time", TIME_RENAMES, "zz_verif_time.go.txt", replace)
    repo = os.environ.get("VERIF_REPO", "/repo")
    os.makedirs(os.path.join(out, "shims"), exist_ok=True)
    for i, (dst, src) in enumerate(sorted(REPO_SHIMS.items())):
        dst = dst.replace("/repo", repo, 1)
        if not os.path.isdir(os.path.dirname(dst)):
            die("shim target directory missing: " + os.path.dirname(dst))
        sp = os.path.join(out, "shims", "shim%d.go" % i)
        with open(sp, "w") as f:
            f.write(src)
        replace[dst] = sp
    for extra in sys.argv[3:]:
        dst, src = extra.split("=", 1)
        replace[dst] = src
    with open(os.path.join(out, "overlay.json"), "w") as f:
        json.dump({"Replace": replace}, f, indent=1, sort_keys=True)

main()
