package fsprops

import (
	"encoding/json"
	"fmt"
	"math/rand/v2"
	"os"
	"os/exec"
	"path/filepath"
	"sort"
	"strings"

	"github.com/pdfcpu/pdfcpu/pkg/api"
	"github.com/pdfcpu/pdfcpu/pkg/pdfcpu/model"
	"verif/core"
	"verif/engine"
	"verif/ops"
	"verif/simfs"
)

// ---------------------------------------------------------------- C02

type c02 struct{}

func init() { core.Register(c02{}) }

func (c02) ID() string    { return "C02" }
func (c02) Level() string { return "fault_enumeration" }
func (c02) Rule() string {
	return "per sampled replace-type op config (in-place, same path, existing output, append, populated output directory): one instrumented run with a crash snapshot of the whole sandbox after EVERY intercepted file-system call including every single write — i.e. every prefix of the operation's file-system sequence, which for a process kill with a surviving page cache is exactly the post-crash state. thorough adds real SIGKILLs of a subprocess at sampled events. A case is non-trivial and distinct when its (config, event address) is new AND the sandbox at that instant differs from the initial one (something is in flight or already published)."
}
func (c02) Assumptions() []string {
	return []string{
		"process crash, not power loss: what the kernel has is what survives (the property's own model)",
		"crash points are the boundaries between file-system calls; a kill in the middle of a single write(2) is covered by the kernel's atomicity of that call with respect to other calls of the same process",
		"'new' bytes of a destination are those the same run ends with (outputs contain random identifiers)",
	}
}
func (c02) RealVsStub() map[string]string {
	return map[string]string{
		"pdfcpu":        "real, unmodified",
		"file system":   "real tmpfs directory; snapshots are taken with raw calls between the operation's calls",
		"process death": "in-process snapshot at every call boundary (all prefixes); thorough: real SIGKILL of a subprocess at sampled call boundaries",
	}
}

// C02Unit is one config plus the number of real kills to sample.
type C02Unit struct {
	Cfg   engine.Config `json:"cfg"`
	Kills int           `json:"kills"`
	// Faulted: number of additional runs with one injected ERR at a mutating event, each snapshotted at
	// every call as well (a fallback path taken after a failure must be as atomic as the main path); 0 = all
	Faulted int   `json:"faulted"`
	Seed    int64 `json:"seed"`
}

func replaceConfigs() []engine.Config {
	var cc []engine.Config
	for _, n := range ops.Names() {
		o := ops.Get(n)
		for _, rel := range extraRels(n, o) {
			cc = append(cc, engine.Config{Op: n, Rel: rel}) // aliases of the input, output path is a symlink to an existing file
		}
		for _, rel := range o.Rels {
			switch rel {
			case ops.RelInPlace, ops.RelSame, ops.RelExisting, ops.RelExisting0, "append", "populated", "populated-ro":
				cc = append(cc, engine.Config{Op: n, Rel: rel})
			case ops.RelPreexisting, ops.RelPartial:
				if !o.NaturalFail {
					cc = append(cc, engine.Config{Op: n, Rel: rel})
				}
			}
		}
	}
	return cc
}

func (c02) Units(tier string, seed int64) ([]core.Unit, error) {
	var units []core.Unit
	rng := rand.New(rand.NewPCG(uint64(seed), 0xC02))
	for _, cfg := range replaceConfigs() {
		u := C02Unit{Cfg: cfg, Seed: int64(rng.Uint64() >> 1), Faulted: 5}
		if tier != "quick" {
			u.Kills = 6
			u.Faulted = 0
		}
		b, _ := json.Marshal(u)
		units = append(units, b)
	}
	return units, nil
}

// C02Replay payload.
type C02Replay struct {
	Cfg   engine.Config `json:"cfg"`
	At    simfs.Addr    `json:"at"`   // event after which the bad state was seen
	Kill  bool          `json:"kill"` // real-kill leg
	Fault *simfs.Fault  `json:"fault,omitempty"`
}

type crashSnap struct {
	ev   simfs.Event
	snap simfs.Snap
}

// crashOracle checks one post-crash state against old (S0) and new (S1) states.
//
// machinery is the set of (normalised) new paths that take part in replacing an existing path: the
// source of a rename onto a path that existed before the call, or the place an existing path is
// renamed away to. Those are the "staging files" of the statement and must be hidden and next to
// the destination. Other new paths are new outputs of the operation (a reserved new output is
// necessarily visible while it is written) and are not a replacement; they are C01/C03's business.
func crashOracle(cfg engine.Config, s0, s1, at simfs.Snap, ev simfs.Event, machinery map[string]bool, complete func(rel string, e simfs.Entry) bool, refs ...simfs.Snap) []core.Violation {
	var vs []core.Violation
	o := ops.Get(cfg.Op)
	mk := func(class, tail, detail string) {
		sig := fmt.Sprintf("%s|%s|%s|%s|%s|after:%s(%s)", o.Family, cfg.Op, cfg.Rel, class, tail, ev.Op, pathKindNorm(ev.Path))
		rp, _ := json.Marshal(C02Replay{Cfg: cfg, At: ev.Addr()})
		d := fmt.Sprintf("%s killed after event %s\n%s", cfg, ev.String(), detail)
		vs = append(vs, core.Violation{Property: "C02", Class: class, Signature: sig, Detail: d, Replay: rp})
	}
	destDirs := map[string]bool{}
	for k, e1 := range s1 {
		if e0, ok := s0[k]; !ok || !simfs.SameEntry(e0, e1) {
			destDirs[filepath.Dir(k)] = true
		}
	}
	for k := range s0 {
		if _, ok := s1[k]; !ok {
			destDirs[filepath.Dir(k)] = true
		}
	}
	for _, ref := range refs { // where the fault-free run publishes (a failed run ends where it started)
		for k, e1 := range ref {
			if e0, ok := s0[k]; !ok || !simfs.SameEntry(e0, e1) {
				destDirs[filepath.Dir(k)] = true
			}
		}
	}
	var keys []string
	for k := range s0 {
		keys = append(keys, k)
	}
	sort.Strings(keys)
	for _, k := range keys {
		e0 := s0[k]
		kind := pathKind(k, s0)
		if kind == "tmpdir" {
			continue
		}
		e, ok := at[k]
		e1, ok1 := s1[k]
		if !ok {
			if ok1 {
				where := "old-bytes-nowhere"
				for q, eq := range at {
					if eq.Type == "file" && eq.Sum == e0.Sum && (simfs.IsHidden(q) || simfs.HiddenAncestor(q)) {
						where = "old-bytes-in-hidden-backup"
					}
				}
				mk("destination-absent", kind+":"+where, fmt.Sprintf("%s (%s) does not exist at this instant (%s); before: %s, at the end: %s", k, kind, where, e0, e1))
			}
			continue
		}
		if simfs.SameEntry(e, e0) {
			continue
		}
		if ok1 && simfs.SameEntry(e, e1) {
			continue
		}
		if complete != nil && complete(k, e) {
			continue
		}
		end := "(removed)"
		if ok1 {
			end = e1.String()
		}
		mk("destination-torn", kind, fmt.Sprintf("%s (%s) holds neither its previous nor its final state: now %s; before %s; at the end %s", k, kind, e, e0, end))
	}
	keys = keys[:0]
	for k := range at {
		if _, ok := s0[k]; !ok {
			keys = append(keys, k)
		}
	}
	sort.Strings(keys)
	for _, k := range keys {
		if strings.HasPrefix(k, "tmp/") {
			continue
		}
		e := at[k]
		hidden := simfs.IsHidden(k) || simfs.HiddenAncestor(k)
		if !hidden && !machinery[normRel(k)] {
			// a new output of this operation (not a replacement): outside C02's statement
			continue
		}
		if !hidden {
			mk("leftover-not-hidden", "", fmt.Sprintf("crash leftover %s (%s) is not a hidden staging file", k, e))
			continue
		}
		if !destDirs[filepath.Dir(k)] && !simfs.HiddenAncestor(filepath.Dir(k)) {
			mk("leftover-elsewhere", "", fmt.Sprintf("crash leftover %s (%s) is not next to a destination (destination directories: %v)", k, e, keysOf(destDirs)))
		}
	}
	return vs
}

// replaceMachinery derives the staging/backup paths of replacements from an event trace.
func replaceMachinery(evs []simfs.Event, s0 simfs.Snap) map[string]bool {
	m := map[string]bool{}
	s0norm := map[string]bool{}
	for k := range s0 {
		s0norm[normRel(k)] = true
	}
	for _, e := range evs {
		if e.Op != "rename" || e.Err != "" {
			continue
		}
		if s0norm[e.Path2] && !s0norm[e.Path] {
			m[e.Path] = true
		}
		if s0norm[e.Path] && !s0norm[e.Path2] {
			m[e.Path2] = true
		}
	}
	return m
}

// publishedStates returns a predicate "this entry of this path is a complete file that was
// installed atomically": the state a path had immediately after a rename onto it. A multi-step
// operation may publish a path more than once (multi-fill merge mode replaces and later removes
// its intermediates); every such state is a complete one, a state reached by writing in place is not.
func publishedStates(snaps []crashSnap) func(rel string, e simfs.Entry) bool {
	pub := map[string][]simfs.Entry{}
	for _, cs := range snaps {
		if cs.ev.Op != "rename" || cs.ev.Err != "" {
			continue
		}
		for k, e := range cs.snap {
			if normRel(k) == cs.ev.Path2 {
				pub[k] = append(pub[k], e)
			}
		}
	}
	return func(rel string, e simfs.Entry) bool {
		for _, p := range pub[rel] {
			if simfs.SameEntry(p, e) {
				return true
			}
		}
		return false
	}
}

func isReadOnlyEvent(op string) bool {
	switch op {
	case "read", "pread", "stat", "lstat", "fstat", "open", "opendir", "readdir", "closedir":
		return true
	}
	return false
}

func keysOf(m map[string]bool) []string {
	var kk []string
	for k := range m {
		kk = append(kk, k)
	}
	sort.Strings(kk)
	return kk
}

func prepareCfg(cfg engine.Config) (engine.Config, *engine.Result, error) {
	rec, err := engine.Run(cfg, engine.Options{})
	if err != nil {
		return cfg, nil, err
	}
	if ops.Get(cfg.Op).OutDirOp && strings.HasPrefix(cfg.Rel, "populated") && len(cfg.Populate) == 0 && rec.Err == nil && !rec.Panicked {
		cfg.Populate = populateFrom(rec)
		rec, err = engine.Run(cfg, engine.Options{})
	}
	return cfg, rec, err
}

func runWithCrashSnaps(cfg engine.Config, faults ...simfs.Fault) (*engine.Result, []crashSnap, error) {
	var snaps []crashSnap
	r, err := engine.Run(cfg, engine.Options{Faults: faults, AfterEvent: func(r *engine.Result, ev *simfs.Event) {
		if ev.Op == "read" || ev.Op == "pread" || ev.Op == "stat" || ev.Op == "lstat" || ev.Op == "fstat" {
			return // cannot change the tree
		}
		snaps = append(snaps, crashSnap{*ev, simfs.TakeSnap(r.Env.Root)})
	}})
	return r, snaps, err
}

func (c02) RunUnit(raw core.Unit, tier string, seed int64) core.UnitResult {
	var u C02Unit
	res := core.UnitResult{FaultFired: map[string]int{}, EventsSeen: map[string]int{}, Probes: map[string]int{}}
	if err := json.Unmarshal(raw, &u); err != nil {
		res.Trouble = err.Error()
		return res
	}
	cfg, rec, err := prepareCfg(u.Cfg)
	if err != nil {
		res.Trouble = err.Error()
		return res
	}
	res.Evaluations++
	if rec.Err != nil || rec.Panicked {
		res.Probes["op_failed_without_fault"]++
		return res
	}
	r, snaps, err := runWithCrashSnaps(cfg)
	if err != nil {
		res.Trouble = err.Error()
		return res
	}
	if r.Err != nil || r.Panicked {
		res.Probes["op_failed_without_fault"]++
		return res
	}
	res.SimSteps += len(r.Events)
	for _, e := range r.Events {
		res.EventsSeen[e.Op]++
	}
	sawRename := false
	mach := replaceMachinery(r.Events, r.S0)
	published := publishedStates(snaps)
	for _, cs := range snaps {
		res.Evaluations++
		res.FaultFired["CRASH"]++
		if len(simfs.Diff(r.S0, cs.snap)) > 0 {
			res.Nontrivial = append(res.Nontrivial, cfg.String()+"|"+cs.ev.Addr().String())
		}
		if cs.ev.Op == "rename" {
			sawRename = true
		}
		res.Violations = append(res.Violations, crashOracle(cfg, r.S0, r.S1, cs.snap, cs.ev, mach, published)...)
	}
	if sawRename {
		res.Probes["rename_over_existing_reached"]++
	}
	if len(res.Samples) == 0 && len(snaps) > 2 {
		mid := snaps[len(snaps)/2]
		res.Samples = append(res.Samples, map[string]any{"config": cfg.String(), "crash_after": mid.ev.String(), "sandbox_vs_initial": simfs.Diff(r.S0, mid.snap), "events": eventSummary(r.Events, 20)})
	}
	// the same with one injected error: whatever path the operation takes after a failure
	{
		var cands []simfs.Fault
		for _, e := range r.Events {
			if isReadOnlyEvent(e.Op) || e.Op == "write" {
				continue
			}
			cands = append(cands, simfs.Fault{Addr: e.Addr(), Kind: simfs.KErr, Errno: int(simfs.ErrnoAt(e.Op, e.Seq)), Seq: e.Seq})
		}
		frng := rand.New(rand.NewPCG(uint64(u.Seed), 3))
		if u.Faulted > 0 && len(cands) > u.Faulted {
			frng.Shuffle(len(cands), func(i, j int) { cands[i], cands[j] = cands[j], cands[i] })
			cands = cands[:u.Faulted]
		}
		for _, f := range cands {
			fr, fsnaps, err := runWithCrashSnaps(cfg, f)
			if err != nil {
				res.Trouble = err.Error()
				return res
			}
			if len(fr.Fired) == 0 {
				continue
			}
			res.FaultFired["ERR"]++
			// Atomicity is judged against the state this run really ends with; whether a failed run
			// ends where it started is C01's clause, not this one.
			end := fr.S1
			if fr.Err == nil && !fr.Panicked {
				res.Probes["fault_absorbed_then_crash_points_checked"]++
			}
			fmach := replaceMachinery(fr.Events, fr.S0)
			fpub := publishedStates(fsnaps)
			for _, cs := range fsnaps {
				res.Evaluations++
				res.FaultFired["CRASH"]++
				if len(simfs.Diff(fr.S0, cs.snap)) > 0 {
					res.Nontrivial = append(res.Nontrivial, cfg.String()+"|"+f.String()+"|"+cs.ev.Addr().String())
				}
				for _, v := range crashOracle(cfg, fr.S0, end, cs.snap, cs.ev, fmach, fpub, r.S1) {
					v.Signature += "|withfault:" + f.Kind + "@" + f.Addr.Op + "(" + pathKindNorm(f.Addr.Path) + ")"
					ff := f
					v.Replay = mustJSON(C02Replay{Cfg: cfg, At: cs.ev.Addr(), Fault: &ff})
					res.Violations = append(res.Violations, v)
				}
			}
		}
	}
	// real kills
	if u.Kills > 0 && len(snaps) > 0 {
		rng := rand.New(rand.NewPCG(uint64(u.Seed), 2))
		for i := 0; i < u.Kills; i++ {
			cs := snaps[rng.IntN(len(snaps))]
			vs, err := realKill(cfg, cs.ev.Addr(), rec)
			if err == errKillNotReached {
				res.Probes["kill_address_not_reached"]++
				continue
			}
			if err != nil {
				res.Trouble = "real-kill leg: " + err.Error()
				return res
			}
			res.Evaluations++
			res.FaultFired["SIGKILL"]++
			res.Probes["real_kills"]++
			res.Violations = append(res.Violations, vs...)
		}
	}
	return res
}

var errKillNotReached = fmt.Errorf("kill address not reached")

// realKill runs cfg in a subprocess that kills itself right after the event at addr, then inspects
// the directory the dead process left.
func realKill(cfg engine.Config, at simfs.Addr, rec *engine.Result) ([]core.Violation, error) {
	dir, err := os.MkdirTemp(engine.ScratchBase(), "kill-")
	if err != nil {
		return nil, err
	}
	defer os.RemoveAll(dir)
	plan, _ := json.Marshal(C02Replay{Cfg: cfg, At: at, Kill: true})
	self, _ := os.Executable()
	cmd := exec.Command(self, "killrun", string(plan))
	cmd.Env = append(os.Environ(), "VERIF_SCRATCH="+dir)
	out, err := cmd.CombinedOutput()
	if err == nil {
		// the number of write calls of large outputs differs slightly from run to run; an address
		// that this run does not have is not a verdict
		return nil, errKillNotReached
	}
	if ee, ok := err.(*exec.ExitError); !ok || ee.ExitCode() != -1 {
		return nil, fmt.Errorf("kill subprocess: %v: %s", err, string(out))
	}
	// locate the sandbox root the child used and its S0
	matches, _ := filepath.Glob(filepath.Join(dir, "verif-*", "r*"))
	if len(matches) != 1 {
		return nil, fmt.Errorf("kill subprocess left %d sandboxes", len(matches))
	}
	root := matches[0]
	b, err := os.ReadFile(filepath.Join(filepath.Dir(root), "s0.json"))
	if err != nil {
		return nil, err
	}
	var s0 simfs.Snap
	if err := json.Unmarshal(b, &s0); err != nil {
		return nil, err
	}
	atSnap := simfs.TakeSnap(root)
	complete := func(rel string, e simfs.Entry) bool {
		// mode of the previous file, or of the final state (a symbolic link replaced by a regular file)
		if e.Type != "file" || (e.Perm != s0[rel].Perm && e.Perm != rec.S1[rel].Perm) {
			return false
		}
		if er, ok := rec.S1[rel]; ok && er.Sum == e.Sum {
			return true
		}
		switch filepath.Ext(rel) {
		case ".gob", ".p7c":
			// installed representations are not byte-stable (gob map order): complete = decodes
			return !strings.HasPrefix(repOf(filepath.Join(root, rel)), "UNDECODABLE")
		case ".pdf":
			return validatesWithAnyPW(filepath.Join(root, rel), cfg.Op)
		case ".json":
			// exports carry a creation time; complete = a well-formed JSON document of the final size
			b, err := os.ReadFile(filepath.Join(root, rel))
			return err == nil && json.Valid(b) && int64(len(b)) == rec.S1[rel].Size
		}
		return false
	}
	ev := simfs.Event{Op: at.Op, Path: at.Path, Occ: at.Occ}
	vs := crashOracle(cfg, s0, rec.S1, atSnap, ev, replaceMachinery(rec.Events, rec.S0), complete)
	for i := range vs {
		vs[i].Signature += "|realkill"
		rp, _ := json.Marshal(C02Replay{Cfg: cfg, At: at, Kill: true})
		vs[i].Replay = rp
	}
	return vs, nil
}

// validatesWithAnyPW: the file is a complete PDF that validates, without or with one of the
// passwords the catalogue's crypto ops use.
func validatesWithAnyPW(path, op string) bool {
	if api.ValidateFile(path, nil) == nil {
		return true
	}
	for _, pw := range [][2]string{{"user-pw", "owner-pw"}, {"new-user", "owner-pw"}, {"user-pw", "new-owner"}} {
		c := model.NewDefaultConfiguration()
		c.UserPW, c.OwnerPW = pw[0], pw[1]
		if api.ValidateFile(path, c) == nil {
			return true
		}
	}
	return false
}

// KillRunMain is the subprocess side of the real-kill leg: verifsim killrun <json>.
func KillRunMain(arg string) int {
	var p C02Replay
	if err := json.Unmarshal([]byte(arg), &p); err != nil {
		fmt.Fprintln(os.Stderr, err)
		return 2
	}
	f := simfs.Fault{Addr: p.At, Kind: simfs.KKillAfter}
	_, err := engine.Run(p.Cfg, engine.Options{Faults: []simfs.Fault{f}, KeepRoot: true, BeforeRun: func(r *engine.Result) {
		b, _ := json.Marshal(r.S0)
		os.WriteFile(filepath.Join(filepath.Dir(r.Env.Root), "s0.json"), b, 0644)
	}})
	if err != nil {
		fmt.Fprintln(os.Stderr, err)
		return 2
	}
	return 0 // kill address never reached
}

func (c02) Replay(payload json.RawMessage) ([]core.Violation, error) {
	var rp C02Replay
	if err := json.Unmarshal(payload, &rp); err != nil {
		return nil, err
	}
	cfg, rec, err := prepareCfg(rp.Cfg)
	if err != nil {
		return nil, err
	}
	if rec.Err != nil || rec.Panicked {
		return nil, fmt.Errorf("operation fails without any fault: %v", rec.Err)
	}
	if rp.Kill {
		return realKill(cfg, rp.At, rec)
	}
	var rfaults []simfs.Fault
	if rp.Fault != nil {
		rfaults = append(rfaults, *rp.Fault)
	}
	r, snaps, err := runWithCrashSnaps(cfg, rfaults...)
	if err != nil {
		return nil, err
	}
	var vs []core.Violation
	found := false
	for _, cs := range snaps {
		if cs.ev.Addr() == rp.At {
			found = true
			fmt.Printf("state after %s:\n", cs.ev)
			for _, d := range simfs.Diff(r.S0, cs.snap) {
				fmt.Println("   ", d)
			}
			vs = append(vs, crashOracle(cfg, r.S0, r.S1, cs.snap, cs.ev, replaceMachinery(r.Events, r.S0), publishedStates(snaps), rec.S1)...)
		}
	}
	if !found {
		return nil, fmt.Errorf("replay diverged: event %s not reached", rp.At)
	}
	return vs, nil
}

func (c02) Minimise(v core.Violation, budget int) json.RawMessage { return nil }
