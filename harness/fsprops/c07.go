package fsprops

import (
	"encoding/json"
	"fmt"
	"math/rand/v2"
	"os"
	"path/filepath"
	"sort"
	"strings"

	"verif/core"
	"verif/engine"
	"verif/ops"
	"verif/simfs"
)

// ---------------------------------------------------------------- C07
//
// Power-loss model (stated, not taken from the code): metadata operations (create entry, mkdir,
// rename, unlink, remove tree) form one global sequence M. The disk holds a prefix M[1..j]. An
// operation on directory D (rename: both directories) is guaranteed durable once a later
// sync of D (both) has returned; j is at least the largest guaranteed index. File data: the bytes
// of a file are guaranteed once fsync of the file returned after its last write; otherwise the
// durable content is any write-call-granular prefix of what was written since the last fsync
// (including nothing) - independently of whether the rename that published the file is durable.

type c07 struct{}

func init() { core.Register(c07{}) }

func (c07) ID() string    { return "C07" }
func (c07) Level() string { return "fault_enumeration" }
func (c07) Rule() string {
	return "font install workloads (single TTF, collection, batches of 1-3, with and without pre-existing targets) are run once fault-free with every write payload recorded; then for EVERY crash point p (after each file-system event) x every admissible durable metadata prefix j x data choices (all files minimal, all maximal, and each unsynced file lowered in turn to each write prefix, capped per file) the durable directory state under the stated power-loss model is materialised and every font name is decoded with the repository's own loader. A case is distinct by (config, p, j, data choice) and non-trivial when the durable state differs from the initial one or some data is still unsynced."
}
func (c07) Assumptions() []string {
	return []string{
		"disk model: ordered metadata (prefix of the global metadata sequence), a directory operation is guaranteed only after a later sync of its directory; unsynced file data may be any write-granular prefix, independent of rename durability",
		"write-call granularity: a torn single write(2) is not modelled",
		"the disk is a model; the trace it is applied to comes from the real code on a real directory",
	}
}
func (c07) RealVsStub() map[string]string {
	return map[string]string{"pdfcpu font install code": "real, unmodified (trace recorded with write payloads)", "durability of the disk": "MODEL (see assumptions)", "decoder used by the oracle": "pdfcpu's own font.Read"}
}

type C07Unit struct {
	Cfg       engine.Config `json:"cfg"`
	PrefixCap int           `json:"prefix_cap"`
	// AbsorbedFaults: number of single ERR faults (at non-read events) that are additionally tried;
	// runs that still report success are put through the same power-loss exploration (-1 = none, 0 = all).
	AbsorbedFaults int          `json:"absorbed_faults"`
	Seed           int64        `json:"seed"`
	Fault          *simfs.Fault `json:"fault,omitempty"` // set for the absorbed-fault legs
}

func (c07) Units(tier string, seed int64) ([]core.Unit, error) {
	var units []core.Unit
	rng := rand.New(rand.NewPCG(uint64(seed), 0xC07))
	for _, cfg := range installConfigs() {
		o := ops.Get(cfg.Op)
		if !strings.HasPrefix(cfg.Op, "font") {
			continue
		}
		if o.NaturalFail || cfg.Rel == ops.RelDangling {
			continue // a dangling link is not a "previous representation" (C06's relation)
		}
		u := C07Unit{Cfg: cfg, PrefixCap: 4, Seed: int64(rng.Uint64() >> 1), AbsorbedFaults: 10}
		if tier != "quick" {
			u.PrefixCap = 12
			u.AbsorbedFaults = 0 // all
		}
		b, _ := json.Marshal(u)
		units = append(units, b)
		if cfg.Rel == ops.RelFresh && (cfg.Op == "font-ttf" || cfg.Op == "font-ttc" || cfg.Op == "fonts-batch2") {
			u.Cfg.Rel = ops.RelSymlinkDir
			b, _ := json.Marshal(u)
			units = append(units, b)
		}
	}
	return units, nil
}

// ---- disk model

type inode struct {
	id     int
	isDir  bool
	base   []byte   // durable content it had before the run (S0 files)
	writes [][]byte // payloads in order
	synced int      // number of writes covered by the last fsync
}

type mop struct {
	seq   int // event seq
	kind  string
	path  string
	path2 string
	ino   int
	dirs  []int // directory inodes whose sync makes it guaranteed
	guar  int   // event seq at which it became guaranteed (0 = never)
}

type diskModel struct {
	root   string
	inodes map[int]*inode
	next   int
	s0tree map[string]int // path -> inode before the run
	vol    map[string]int // volatile tree
	handle map[int]int    // FileID -> inode
	m      []*mop
	// per event seq: number of writes/synced per inode at that point
	timeline []modelPoint
	dirSyncs [][2]int // (directory inode, event seq)
}

type modelPoint struct {
	seq    int
	nM     int
	writes map[int]int
	synced map[int]int
	guarM  int // largest guaranteed index into m (1-based), 0 if none
}

func parent(p string) string {
	d := filepath.Dir(p)
	if d == "." {
		return ""
	}
	return d
}

func (d *diskModel) newInode(isDir bool) *inode {
	d.next++
	n := &inode{id: d.next, isDir: isDir}
	d.inodes[n.id] = n
	return n
}

func cloneTree(t map[string]int) map[string]int {
	c := make(map[string]int, len(t))
	for k, v := range t {
		c[k] = v
	}
	return c
}

func applyMop(t map[string]int, o *mop) {
	switch o.kind {
	case "create", "mkdir":
		t[o.path] = o.ino
	case "unlink":
		delete(t, o.path)
	case "rmtree":
		for k := range t {
			if k == o.path || strings.HasPrefix(k, o.path+"/") {
				delete(t, k)
			}
		}
	case "rename":
		moved := map[string]int{}
		for k, v := range t {
			if k == o.path || strings.HasPrefix(k, o.path+"/") {
				moved[o.path2+strings.TrimPrefix(k, o.path)] = v
				delete(t, k)
			}
		}
		// rename over an existing path replaces it
		for k := range t {
			if k == o.path2 || strings.HasPrefix(k, o.path2+"/") {
				delete(t, k)
			}
		}
		for k, v := range moved {
			t[k] = v
		}
	}
}

// buildModel replays the recorded trace into the model.
func buildModel(r *engine.Result) (*diskModel, error) {
	d := &diskModel{root: r.Env.Root, inodes: map[int]*inode{}, s0tree: map[string]int{}, handle: map[int]int{}}
	rootIno := d.newInode(true)
	d.s0tree[""] = rootIno.id
	var keys []string
	for k := range r.S0 {
		keys = append(keys, k)
	}
	sort.Strings(keys)
	for _, k := range keys {
		e := r.S0[k]
		n := d.newInode(e.Type == "dir")
		if e.Type == "file" {
			b, err := os.ReadFile(filepath.Join(r.Env.Root, k))
			_ = err
			n.base = b
		}
		d.s0tree[k] = n.id
	}
	d.vol = cloneTree(d.s0tree)
	return d, nil
}

// rel converts a raw absolute path to the unnormalised sandbox-relative form.
func (d *diskModel) rel(raw string) string {
	r, err := filepath.Rel(d.root, raw)
	if err != nil || r == "." {
		return ""
	}
	return r
}

func (d *diskModel) addM(o *mop) {
	d.m = append(d.m, o)
	applyMop(d.vol, o)
}

func (d *diskModel) feed(e simfs.Event, data []byte) {
	p := d.rel(e.Raw)
	switch e.Op {
	case "mkdir":
		if e.Err == "" {
			n := d.newInode(true)
			d.addM(&mop{seq: e.Seq, kind: "mkdir", path: p, ino: n.id, dirs: []int{d.vol[parent(p)]}})
		}
	case "openExcl", "create", "openTrunc", "openW", "open", "opendir":
		if e.Err != "" {
			break
		}
		ino, ok := d.vol[p]
		if !ok && (e.Op == "open" || e.Op == "opendir") {
			break // a read-only open of something the model does not track (reached through a symlink)
		}
		if !ok {
			n := d.newInode(false)
			ino = n.id
			d.addM(&mop{seq: e.Seq, kind: "create", path: p, ino: ino, dirs: []int{d.vol[parent(p)]}})
		} else if e.Op == "create" || e.Op == "openTrunc" {
			n := d.inodes[ino]
			n.base, n.writes, n.synced = nil, nil, 0
		}
		d.handle[e.FileID] = ino
	case "write", "pwrite":
		if ino, ok := d.handle[e.FileID]; ok && e.Err == "" {
			d.inodes[ino].writes = append(d.inodes[ino].writes, data)
		}
	case "sync":
		if ino, ok := d.handle[e.FileID]; ok && e.Err == "" {
			n := d.inodes[ino]
			n.synced = len(n.writes)
		}
	case "syncdir":
		if ino, ok := d.handle[e.FileID]; ok && e.Err == "" {
			for _, o := range d.m {
				if o.guar != 0 {
					continue
				}
				all := true
				for _, dd := range o.dirs {
					if dd != ino && !d.dirSyncedSince(dd, o.seq, e.Seq) {
						all = false
					}
				}
				has := false
				for _, dd := range o.dirs {
					if dd == ino {
						has = true
					}
				}
				if has && all {
					o.guar = e.Seq
				}
			}
			d.dirSyncs = append(d.dirSyncs, [2]int{ino, e.Seq})
		}
	case "rename":
		if e.Err == "" {
			p2 := d.rel(e.Raw2)
			d.addM(&mop{seq: e.Seq, kind: "rename", path: p, path2: p2, dirs: []int{d.vol[parent(p)], d.vol[parent(p2)]}})
		}
	case "remove":
		if e.Err == "" {
			d.addM(&mop{seq: e.Seq, kind: "unlink", path: p, dirs: []int{d.vol[parent(p)]}})
		}
	case "removeall":
		if e.Err == "" {
			if _, ok := d.vol[p]; ok {
				d.addM(&mop{seq: e.Seq, kind: "rmtree", path: p, dirs: []int{d.vol[parent(p)]}})
			}
		}
	}
	// timeline point after this event
	pt := modelPoint{seq: e.Seq, nM: len(d.m), writes: map[int]int{}, synced: map[int]int{}}
	for id, n := range d.inodes {
		if len(n.writes) > 0 {
			pt.writes[id] = len(n.writes)
			pt.synced[id] = n.synced
		}
	}
	for i, o := range d.m {
		if o.guar != 0 {
			pt.guarM = i + 1
		}
	}
	d.timeline = append(d.timeline, pt)
}

func (d *diskModel) dirSyncedSince(dir, after, upto int) bool {
	for _, s := range d.dirSyncs {
		if s[0] == dir && s[1] > after && s[1] <= upto {
			return true
		}
	}
	return false
}

// durable content of inode with k of its writes applied
func (n *inode) content(k int) []byte {
	out := append([]byte(nil), n.base...)
	for i := 0; i < k && i < len(n.writes); i++ {
		out = append(out, n.writes[i]...)
	}
	return out
}

// C07Replay payload: one durable state.
type C07Replay struct {
	Cfg    engine.Config  `json:"cfg"`
	Crash  int            `json:"crash_after_event"`
	J      int            `json:"metadata_prefix"`
	Lower  map[string]int `json:"lowered,omitempty"` // inode path (at crash, volatile) -> number of writes durable
	AllMin bool           `json:"all_min"`
	Fault  *simfs.Fault   `json:"absorbed_fault,omitempty"`
}

type c07Eval struct {
	d       *diskModel
	r       *engine.Result
	rep0    map[string]string
	newRep  map[string]string
	cache   map[[32]byte]string
	scratch string
	evals   int
}

func (ev *c07Eval) repContent(name string, b []byte) string {
	h := sha256sum(append([]byte(name+"\x00"), b...))
	if r, ok := ev.cache[h]; ok {
		return r
	}
	p := filepath.Join(ev.scratch, name)
	os.WriteFile(p, b, 0644)
	r := repOf(p)
	os.Remove(p)
	ev.cache[h] = r
	return r
}

// check evaluates one durable state; choose(inodeID, nWrites, nSynced) gives the durable write count.
func (ev *c07Eval) check(pt modelPoint, j int, choose func(id, total, synced int) int, afterSuccess bool, desc func() C07Replay) []core.Violation {
	ev.evals++
	tree := cloneTree(ev.d.s0tree)
	for i := 0; i < j; i++ {
		applyMop(tree, ev.d.m[i])
	}
	var vs []core.Violation
	mk := func(class, name, detail string) {
		rp := desc()
		b, _ := json.Marshal(rp)
		sig := fmt.Sprintf("install|%s|%s|%s|%s", ev.r.Cfg.Op, ev.r.Cfg.Rel, class, name)
		vs = append(vs, core.Violation{Property: "C07", Class: class, Signature: sig, Replay: b,
			Detail: fmt.Sprintf("%s power loss after event %d (%s), durable metadata prefix %d of %d, data choice %v\n%s", ev.r.Cfg, pt.seq, ev.r.Events[pt.seq-1].String(), j, pt.nM, rp.Lower, detail)})
	}
	seen := map[string]bool{}
	for path, ino := range tree {
		if filepath.Dir(path) != "fonts" || filepath.Ext(path) != ".gob" || strings.HasPrefix(filepath.Base(path), ".") {
			continue
		}
		seen[path] = true
		n := ev.d.inodes[ino]
		k := 0
		if total := pt.writes[ino]; total > 0 {
			k = choose(ino, total, pt.synced[ino])
		}
		rep := ev.repContent(filepath.Base(path), n.content(k))
		old, had := ev.rep0[path]
		nw := ev.newRep[path]
		if (had && rep == old) || (nw != "" && rep == nw) {
			if afterSuccess && nw != "" && rep != nw {
				mk("not-durable-after-success", filepath.Base(path), fmt.Sprintf("the install had already returned success, yet after power loss %s holds its previous representation %s", path, rep))
			}
			continue
		}
		mk("torn-representation", filepath.Base(path), fmt.Sprintf("%s would hold %q (%d of %d writes durable, %d synced); previous %q, new %q", path, rep, k, pt.writes[ino], pt.synced[ino], old, nw))
	}
	if afterSuccess {
		for path, nw := range ev.newRep {
			if !seen[path] && isTarget(ev.r, path) {
				mk("not-durable-after-success", filepath.Base(path), fmt.Sprintf("the install had already returned success, yet after power loss %s is absent (new representation %s)", path, nw))
			}
		}
	}
	return vs
}

func isTarget(r *engine.Result, p string) bool {
	for _, t := range r.Env.Targets {
		if t == p {
			return true
		}
	}
	return false
}

func c07Explore(u C07Unit, only *C07Replay) (res core.UnitResult) {
	res = core.UnitResult{FaultFired: map[string]int{}, EventsSeen: map[string]int{}, Probes: map[string]int{}}
	cfg := u.Cfg
	var ev *c07Eval
	var rep0, rep1 map[string]string
	var model *diskModel
	var faults []simfs.Fault
	if u.Fault != nil {
		faults = []simfs.Fault{*u.Fault}
	}
	r, err := engine.Run(cfg, engine.Options{KeepData: true, Faults: faults,
		BeforeRun: func(r *engine.Result) {
			rep0 = repsOf(r.Env.Root, r.S0)
			model, _ = buildModel(r)
		},
		AfterRun: func(r *engine.Result) { rep1 = repsOf(r.Env.Root, r.S1) }})
	if err != nil {
		res.Trouble = err.Error()
		return
	}
	res.Evaluations++
	if r.Err != nil || r.Panicked {
		if u.Fault != nil {
			res.Probes["faulted_install_failed_(not_C07's_subject)"]++
		} else {
			res.Probes["install_failed_without_fault"]++
		}
		return
	}
	if u.Fault != nil {
		if len(r.Fired) == 0 {
			return
		}
		res.Probes["fault_absorbed_install_reported_success"]++
		res.FaultFired["ERR(absorbed)"]++
	}
	for _, e := range r.Events {
		res.EventsSeen[e.Op]++
		model.feed(e, r.Sim.WriteData[e.Seq])
	}
	if cfg.Rel == ops.RelSymlinkDir {
		// snapshots see the real directory; the model and the targets use the path the caller gave
		for k, v := range rep1 {
			if strings.HasPrefix(k, "realfonts/") {
				rep1["fonts/"+strings.TrimPrefix(k, "realfonts/")] = v
			}
		}
		res.Probes["font_dir_is_symlink_configs"]++
	}
	scratch, _ := os.MkdirTemp(engine.ScratchBase(), "c07-")
	defer os.RemoveAll(scratch)
	ev = &c07Eval{d: model, r: r, rep0: rep0, newRep: map[string]string{}, cache: map[[32]byte]string{}, scratch: scratch}
	for _, t := range r.Env.Targets {
		ev.newRep[t] = rep1[t]
		if rep1[t] == "" || strings.HasPrefix(rep1[t], "UNDECODABLE") {
			res.Trouble = fmt.Sprintf("%s: target %s not installed by the fault-free run (%q)", cfg, t, rep1[t])
			return
		}
	}
	for k, v := range rep0 { // bystanders: new == old
		if _, ok := ev.newRep[k]; !ok && filepath.Dir(k) == "fonts" {
			ev.newRep[k] = v
		}
	}
	pathOf := func(ino int) string {
		for p, i := range model.vol {
			if i == ino {
				return p
			}
		}
		return fmt.Sprintf("inode%d", ino)
	}
	sampleDone := false
	for pi, pt := range model.timeline {
		last := pi == len(model.timeline)-1
		if only != nil && only.Crash != pt.seq {
			continue
		}
		var unsynced []int
		for id, total := range pt.writes {
			if pt.synced[id] < total {
				unsynced = append(unsynced, id)
			}
		}
		sort.Ints(unsynced)
		for j := pt.guarM; j <= pt.nM; j++ {
			if only != nil && only.J != j {
				continue
			}
			type choice struct {
				name  string
				lower map[int]int
				min   bool
			}
			choices := []choice{{name: "all-max"}}
			if len(unsynced) > 0 {
				choices = append(choices, choice{name: "all-min", min: true})
				for _, id := range unsynced {
					total, synced := pt.writes[id], pt.synced[id]
					ks := prefixChoices(synced, total, u.PrefixCap)
					for _, k := range ks {
						choices = append(choices, choice{name: "lower", lower: map[int]int{id: k}})
					}
				}
			}
			for _, c := range choices {
				c := c
				if only != nil {
					if only.AllMin != c.min {
						continue
					}
					if len(only.Lower) > 0 || c.lower != nil {
						match := len(only.Lower) == len(c.lower)
						for id, k := range c.lower {
							if only.Lower[pathOf(id)] != k {
								match = false
							}
						}
						if !match {
							continue
						}
					}
				}
				choose := func(id, total, synced int) int {
					if k, ok := c.lower[id]; ok {
						return k
					}
					if c.min {
						return synced
					}
					return total
				}
				desc := func() C07Replay {
					rp := C07Replay{Cfg: cfg, Crash: pt.seq, J: j, AllMin: c.min, Fault: u.Fault}
					if c.lower != nil {
						rp.Lower = map[string]int{}
						for id, k := range c.lower {
							rp.Lower[pathOf(id)] = k
						}
					}
					return rp
				}
				vs := ev.check(pt, j, choose, last, desc)
				res.Evaluations++
				res.FaultFired["POWERLOSS"]++
				if j > 0 || len(unsynced) > 0 {
					res.Nontrivial = append(res.Nontrivial, fmt.Sprintf("%s|p%d|j%d|%s%v", cfg, pt.seq, j, c.name, c.lower))
				}
				if len(unsynced) > 0 {
					res.Probes["states_with_unsynced_data"]++
				}
				if j < pt.nM {
					res.Probes["states_with_lost_directory_entries"]++
				}
				res.Violations = append(res.Violations, vs...)
				if !sampleDone && len(unsynced) > 0 && j > 0 {
					sampleDone = true
					res.Samples = append(res.Samples, map[string]any{"config": cfg.String(), "crash_after": r.Events[pt.seq-1].String(), "durable_metadata_prefix": j, "metadata_ops_so_far": pt.nM, "guaranteed_prefix": pt.guarM, "data_choice": c.name, "violations": len(vs)})
				}
			}
		}
	}
	res.SimSteps = len(r.Events)
	return
}

// prefixChoices: representative durable write counts between synced and total (exclusive of total).
func prefixChoices(synced, total, cap int) []int {
	var ks []int
	n := total - synced
	if n <= cap {
		for k := synced; k < total; k++ {
			ks = append(ks, k)
		}
		return ks
	}
	seen := map[int]bool{}
	for i := 0; i < cap; i++ {
		k := synced + i*(n-1)/(cap-1)
		if !seen[k] && k < total {
			seen[k] = true
			ks = append(ks, k)
		}
	}
	return ks
}

func (c07) RunUnit(raw core.Unit, tier string, seed int64) core.UnitResult {
	var u C07Unit
	if err := json.Unmarshal(raw, &u); err != nil {
		return core.UnitResult{Trouble: err.Error()}
	}
	res := c07Explore(u, nil)
	if res.Trouble != "" || u.AbsorbedFaults < 0 {
		return res
	}
	// absorbed-fault legs: a call that swallows an error (documented as a warning) and still
	// reports success owes the same durability
	rec, err := engine.Run(u.Cfg, engine.Options{})
	if err != nil || rec.Err != nil {
		return res
	}
	var cands []simfs.Fault
	for _, e := range rec.Events {
		switch e.Op {
		case "read", "pread", "open", "stat", "lstat", "fstat":
			continue
		}
		cands = append(cands, simfs.Fault{Addr: e.Addr(), Kind: simfs.KErr, Errno: int(simfs.ErrnoAt(e.Op, e.Seq)), Seq: e.Seq})
	}
	rng := rand.New(rand.NewPCG(uint64(u.Seed), 7))
	if u.AbsorbedFaults > 0 && len(cands) > u.AbsorbedFaults {
		// removals are where errors get absorbed: keep all of them, sample the rest
		var keep, rest []simfs.Fault
		for _, f := range cands {
			if f.Addr.Op == "remove" || f.Addr.Op == "removeall" {
				keep = append(keep, f)
			} else {
				rest = append(rest, f)
			}
		}
		rng.Shuffle(len(rest), func(i, j int) { rest[i], rest[j] = rest[j], rest[i] })
		for len(keep) < u.AbsorbedFaults && len(rest) > 0 {
			keep = append(keep, rest[0])
			rest = rest[1:]
		}
		cands = keep
	}
	for _, f := range cands {
		f := f
		fu := u
		fu.Fault = &f
		fu.AbsorbedFaults = -1
		fr := c07Explore(fu, nil)
		if fr.Trouble != "" {
			res.Trouble = fr.Trouble
			return res
		}
		res.Evaluations += fr.Evaluations
		res.Nontrivial = append(res.Nontrivial, fr.Nontrivial...)
		res.Violations = append(res.Violations, fr.Violations...)
		for k, v := range fr.Probes {
			res.Probes[k] += v
		}
		for k, v := range fr.FaultFired {
			res.FaultFired[k] += v
		}
	}
	return res
}

func (c07) Replay(payload json.RawMessage) ([]core.Violation, error) {
	var rp C07Replay
	if err := json.Unmarshal(payload, &rp); err != nil {
		return nil, err
	}
	res := c07Explore(C07Unit{Cfg: rp.Cfg, PrefixCap: 1 << 20, Fault: rp.Fault, AbsorbedFaults: -1}, &rp)
	if res.Trouble != "" {
		return nil, fmt.Errorf("%s", res.Trouble)
	}
	return res.Violations, nil
}

func (c07) Minimise(v core.Violation, budget int) json.RawMessage { return nil }
