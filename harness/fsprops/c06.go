package fsprops

import (
	"bytes"
	"encoding/json"
	"fmt"
	"math/rand/v2"
	"os"
	"path/filepath"
	"sort"
	"strings"

	"github.com/pdfcpu/pdfcpu/pkg/font"
	"github.com/pdfcpu/pdfcpu/pkg/pdfcpu"
	"verif/core"
	"verif/engine"
	"verif/ops"
	"verif/pdfobs"
	"verif/simfs"
)

// ---------------------------------------------------------------- C06

type c06 struct{}

func init() { core.Register(c06{}) }

func (c06) ID() string    { return "C06" }
func (c06) Level() string { return "fault_enumeration" }
func (c06) Rule() string {
	return "install workloads (single TTF, TrueType collection, InstallFonts batches of 1-3 inputs, batches with an invalid or duplicate input discovered mid-batch, a batch whose post-commit reload fails, certificate imports of 1-3 files incl. an unparsable and a colliding one) x {no target exists, every target exists with an older valid representation, only the first exists}. Regime R1: one run per (event, ERR) over the complete recorded trace (mkdirTemp/createTemp/lstat/stat/write/sync/syncDir/close/rename/remove/removeAll/readdir all are events). Regime R2: (natural mid-batch failure or a forward ERR) x one ERR at an event of the rollback/cleanup that follows. thorough adds PANIC at data events and every errno. Non-trivial and distinct: new (config, fault addresses) whose faults fired and changed the outcome."
}
func (c06) Assumptions() []string {
	return []string{
		"representations are compared decoded (font.Read bytes of a .gob, certificate subjects of a .p7c), because gob encoding of maps is not byte-stable",
		"after a natural mid-batch failure an injected fault is attributed to the rollback (weaker clause) only if the returned error still reports the natural failure; otherwise the strict clause applies",
	}
}
func (c06) RealVsStub() map[string]string {
	return map[string]string{"pdfcpu pkg/font, pkg/api font and certificate code": "real, unmodified", "file system": "real tmpfs directory", "fonts": "Roboto-Regular.ttf with rewritten name records; harness-built TTC", "certificates": "deterministic ed25519 self-signed"}
}

// C06Unit describes one config and regime knobs.
type C06Unit struct {
	Cfg       engine.Config `json:"cfg"`
	AllErrnos bool          `json:"all_errnos"`
	Panics    bool          `json:"panics"`
	Double    int           `json:"double"`
	MaxReads  int           `json:"max_reads"`
	MaxWrites int           `json:"max_writes,omitempty"` // 0 = all
	Seed      int64         `json:"seed"`
}

func installConfigs() []engine.Config {
	var cc []engine.Config
	for _, n := range ops.Names() {
		o := ops.Get(n)
		if o.Family != "install" {
			continue
		}
		for _, rel := range o.Rels {
			cc = append(cc, engine.Config{Op: n, Rel: rel})
		}
	}
	return cc
}

func (c06) Units(tier string, seed int64) ([]core.Unit, error) {
	var units []core.Unit
	rng := rand.New(rand.NewPCG(uint64(seed), 0xC06))
	for _, cfg := range installConfigs() {
		u := C06Unit{Cfg: cfg, Seed: int64(rng.Uint64() >> 1), MaxReads: 4, Double: 12}
		sheets := strings.HasPrefix(cfg.Op, "sheets-")
		if tier != "quick" {
			u.AllErrnos, u.Panics, u.Double, u.MaxReads = true, true, 120, 30
			if sheets {
				u.AllErrnos, u.Double = false, 30 // one run costs seconds (the sheets are rendered before they are published)
			}
		} else if sheets {
			// quick: the single-font workload in all three relations (the batches are thorough-only)
			if cfg.Op != "sheets-demo1" {
				continue
			}
			u.MaxReads, u.MaxWrites, u.Double = 1, 2, 3
		}
		b, _ := json.Marshal(u)
		units = append(units, b)
	}
	return units, nil
}

// repOf decodes an installed representation to a comparable string.
func repOf(abs string) string {
	switch filepath.Ext(abs) {
	case ".gob":
		old := font.UserFontDir
		font.UserFontDir = filepath.Dir(abs)
		defer func() { font.UserFontDir = old }()
		b, err := font.Read(strings.TrimSuffix(filepath.Base(abs), ".gob"))
		if err != nil {
			return "UNDECODABLE: " + firstLine(err.Error())
		}
		h := sha256sum(b)
		return fmt.Sprintf("font:%x", h[:8])
	case ".p7c":
		certs, err := pdfcpu.LoadCertificatesFile(abs)
		if err != nil {
			return "UNDECODABLE: " + firstLine(err.Error())
		}
		var cn []string
		for _, c := range certs {
			cn = append(cn, c.Subject.CommonName)
		}
		return "certs:" + strings.Join(cn, ",")
	case ".pdf":
		// cheat sheets carry a creation date and a random ID: compare through pdfcpu's reader
		b, err := os.ReadFile(abs)
		if err != nil {
			return "UNDECODABLE: " + firstLine(err.Error())
		}
		if bytes.Equal(b, ops.OldSheetContent) {
			return "old-sheet"
		}
		d, err := pdfobs.Observe(abs, "", "")
		if err != nil {
			return "UNDECODABLE: " + firstLine(err.Error())
		}
		return "pdf:" + d.Digest()
	}
	return ""
}

func firstLine(s string) string {
	if i := strings.IndexByte(s, '\n'); i >= 0 {
		s = s[:i]
	}
	if len(s) > 160 {
		s = s[:160]
	}
	return s
}

// reps computes the representation of every .gob/.p7c below root.
func repsOf(root string, snap simfs.Snap) map[string]string {
	out := map[string]string{}
	for k, e := range snap {
		if e.Type != "file" {
			continue
		}
		if ext := filepath.Ext(k); ext == ".gob" || ext == ".p7c" || (ext == ".pdf" && strings.HasPrefix(k, "sheets/")) {
			if k == "certs/bystander.p7c" || k == "sheets/bystander.pdf" {
				continue
			}
			out[k] = repOf(filepath.Join(root, k))
		}
	}
	return out
}

type installRun struct {
	r          *engine.Result
	rep0, rep1 map[string]string
}

func runInstall(cfg engine.Config, faults []simfs.Fault) (*installRun, error) {
	ir := &installRun{}
	r, err := engine.Run(cfg, engine.Options{Faults: faults,
		BeforeRun: func(r *engine.Result) { ir.rep0 = repsOf(r.Env.Root, r.S0) },
		AfterRun:  func(r *engine.Result) { ir.rep1 = repsOf(r.Env.Root, r.S1) }})
	ir.r = r
	return ir, err
}

// C06Replay payload.
type C06Replay struct {
	Cfg    engine.Config `json:"cfg"`
	Faults []simfs.Fault `json:"faults"`
	Events []string      `json:"event_log,omitempty"`
}

// naturalCore returns a fragment of the natural failure's message that does not depend on paths.
func naturalCore(err error) string {
	if err == nil {
		return ""
	}
	for _, frag := range []string{"duplicate PostScript name", "parse tables", "reload user fonts", "load certificates", "duplicate certificate destination", "user font not found", "NoSuchFont"} {
		if strings.Contains(err.Error(), frag) {
			return frag
		}
	}
	return "\x00none"
}

// installOracle judges one faulted run. ref is the fault-free run of the same config.
func installOracle(ir, ref *installRun, faults []simfs.Fault, rollbackFaulted bool) []core.Violation {
	r := ir.r
	var vs []core.Violation
	o := ops.Get(r.Cfg.Op)
	mk := func(class, tail, detail string) {
		var parts, fs []string
		for _, f := range faults {
			parts = append(parts, f.Kind+"@"+f.Addr.Op+"("+installPathKind(f.Addr.Path)+")")
			fs = append(fs, f.String())
		}
		sig := fmt.Sprintf("%s|%s|%s|%s|%s|%s", o.Family, r.Cfg.Op, r.Cfg.Rel, strings.Join(parts, "+"), class, tail)
		rp, _ := json.Marshal(C06Replay{Cfg: r.Cfg, Faults: faults, Events: eventSummary(r.Events, 80)})
		d := fmt.Sprintf("%s faults=[%s]\nreturned err=%v panicked=%v\n%s", r.Cfg, strings.Join(fs, "; "), r.Err, r.Panicked, detail)
		vs = append(vs, core.Violation{Property: "C06", Class: class, Signature: sig, Detail: d, Replay: rp})
	}
	unremovable := map[string]bool{}
	for _, f := range r.Fired {
		if f.Kind == simfs.KErr && (f.Addr.Op == "remove" || f.Addr.Op == "removeall") {
			unremovable[f.Addr.Path] = true
		}
	}
	targets := map[string]bool{}
	for _, t := range r.Env.Targets {
		targets[t] = true
	}
	failed := r.Err != nil || r.Panicked
	changes := simfs.Changes(r.S0, r.S1)
	// sub-classification for narrow known findings: the call reports failure although every target
	// holds the representation the fault-free call publishes (failure of a post-publication step)
	allPublished := failed && len(r.Env.Targets) > 0
	for _, t := range r.Env.Targets {
		if ref.rep1[t] == "" || ir.rep1[t] != ref.rep1[t] || strings.HasPrefix(ir.rep1[t], "UNDECODABLE") {
			allPublished = false
		}
	}
	pubTail := func(s string) string {
		if allPublished {
			return s + ":all-published"
		}
		return s
	}
	if !failed {
		// success: every target holds the new complete representation, everything else is untouched
		for _, t := range r.Env.Targets {
			want := ref.rep1[t]
			if got := ir.rep1[t]; got != want || want == "" {
				mk("success-target-wrong", "", fmt.Sprintf("success was reported but target %s holds %q, the fault-free install gives %q", t, got, want))
			}
		}
		for _, ch := range changes {
			if targets[ch.Path] || strings.HasPrefix(ch.Path, "tmp/") {
				continue
			}
			n := normRel(ch.Path)
			if ch.Kind == "new" && (unremovable[n] || underAny(n, unremovable)) {
				continue // the one path whose removal was the injected fault
			}
			mk("success-collateral", installPathKind(n), "success was reported but: "+ch.String())
		}
		return vs
	}
	// A single injected removal failure is transient (the next attempt on the same path succeeds). In
	// a workload that succeeds without faults it hits a forward step, and the rollback that follows has
	// no failed step of its own: nothing may remain, not even the path whose removal failed once. The
	// path is excused only when a rollback step was faulted, or when everything was published already
	// (the failed removal is cleanup after publication).
	excuse := rollbackFaulted || allPublished || ops.Get(r.Cfg.Op).NaturalFail
	if !excuse {
		unremovable = map[string]bool{}
	}
	strictOK := true
	var strictDetail []string
	for _, ch := range changes {
		if strings.HasPrefix(ch.Path, "tmp/") {
			continue
		}
		n := normRel(ch.Path)
		if ch.Kind == "new" && (unremovable[n] || underAny(n, unremovable)) {
			continue
		}
		// representation-level equality for targets (bytes of a restored file are the same file anyway)
		strictOK = false
		strictDetail = append(strictDetail, ch.String())
	}
	if strictOK {
		return nil
	}
	if !rollbackFaulted {
		for _, ch := range changes {
			if strings.HasPrefix(ch.Path, "tmp/") {
				continue
			}
			n := normRel(ch.Path)
			if ch.Kind == "new" && (unremovable[n] || underAny(n, unremovable)) {
				continue
			}
			class := "not-restored"
			if ch.Kind == "new" {
				class = "leftover"
			}
			mk(class, pubTail(installPathKind(n)), fmt.Sprintf("the call failed and its own rollback steps were not faulted, but the directories are not as before: %s", ch.String()))
		}
		return vs
	}
	// a rollback step failed: old contents must survive somewhere the error names; no partial target
	errText := fmt.Sprint(r.Err)
	for _, t := range r.Env.Targets {
		old, had := ir.rep0[t]
		now := ir.rep1[t]
		if strings.HasPrefix(now, "UNDECODABLE") {
			mk("partial-target", "", fmt.Sprintf("target %s holds a partial/undecodable file: %q (previous %q)", t, now, old))
		}
		if !had || now == old {
			continue
		}
		found := false
		// a backup is the old file moved aside: same bytes, at a path (or in a directory) the error names
		for k, e := range r.S1 {
			if k == t || e.Type != "file" || e.Sum != r.S0[t].Sum {
				continue
			}
			abs := filepath.Join(r.Env.Root, k)
			// named by its path - absolute, or relative to the directory the call works in (the cheat-sheet
			// batch publishes into "."): the backup directory's own name is what identifies it
			if strings.Contains(errText, abs) || (simfs.HiddenAncestor(filepath.Dir(k)) && (strings.Contains(errText, filepath.Dir(abs)) || strings.Contains(errText, string(filepath.Separator)+filepath.Base(filepath.Dir(abs))))) {
				found = true
			}
		}
		if !found {
			mk("old-content-lost", pubTail(""), fmt.Sprintf("a rollback step failed and the previous representation of %s (%q) is neither at the target nor in a backup named by the error.\nstate: %v", t, old, strictDetail))
		}
	}
	return vs
}

func installPathKind(p string) string {
	base := filepath.Base(p)
	switch {
	case strings.HasPrefix(p, "in/"):
		return "input"
	case strings.Contains(p, "backup"):
		return "backup"
	case strings.Contains(p, ".pdfcpu-") || strings.Contains(p, ".input-") || strings.Contains(p, ".stage-") || strings.HasPrefix(base, "."):
		return "staging"
	case p == "fonts" || p == "certs" || p == "sheets":
		return "targetdir"
	case strings.HasPrefix(p, "fonts/") || strings.HasPrefix(p, "certs/") || strings.HasPrefix(p, "sheets/"):
		return "target"
	}
	return "other"
}

func (c06) RunUnit(raw core.Unit, tier string, seed int64) core.UnitResult {
	var u C06Unit
	res := core.UnitResult{FaultFired: map[string]int{}, EventsSeen: map[string]int{}, Probes: map[string]int{}}
	if err := json.Unmarshal(raw, &u); err != nil {
		res.Trouble = err.Error()
		return res
	}
	rng := rand.New(rand.NewPCG(uint64(u.Seed), 6))
	cfg := u.Cfg
	o := ops.Get(cfg.Op)
	ref, err := runInstall(cfg, nil)
	if err != nil {
		res.Trouble = err.Error()
		return res
	}
	res.Evaluations++
	rec := ref.r
	for _, e := range rec.Events {
		res.EventsSeen[e.Op]++
	}
	natural := rec.Err != nil || rec.Panicked
	if natural != o.NaturalFail {
		res.Violations = append(res.Violations, core.Violation{Property: "C06", Class: "unexpected-outcome", Signature: "install|" + cfg.String() + "|unexpected-outcome",
			Detail: fmt.Sprintf("%s: fault-free run returned err=%v, catalogue expects natural failure=%v", cfg, rec.Err, o.NaturalFail), Replay: mustJSON(C06Replay{Cfg: cfg})})
		return res
	}
	if natural {
		res.Probes["natural_midbatch_failure_runs"]++
		res.Violations = append(res.Violations, installOracle(ref, ref, nil, false)...)
	} else {
		res.Violations = append(res.Violations, installOracle(ref, ref, nil, false)...)
	}
	core01 := C01Unit{MaxReads: u.MaxReads, MaxWrites: u.MaxWrites, AllErrnos: u.AllErrnos}
	var faults []simfs.Fault
	for _, f := range faultsFor(rec.Events, core01, rng) {
		switch f.Kind {
		case simfs.KErr:
			faults = append(faults, f)
		case simfs.KPanic:
			if u.Panics {
				faults = append(faults, f)
			}
		}
	}
	natCore := naturalCore(rec.Err)
	run := func(ff []simfs.Fault, rollbackFaulted func(ir *installRun) bool) bool {
		ir, err := runInstall(cfg, ff)
		if err != nil {
			res.Trouble = err.Error()
			return false
		}
		res.Evaluations++
		res.SimSteps += len(ir.r.Events)
		if len(ir.r.Fired) < len(ff) {
			res.Probes["fault_not_reached"]++
			return true
		}
		for _, f := range ir.r.Fired {
			res.FaultFired[f.Kind]++
		}
		var key []string
		for _, f := range ff {
			key = append(key, f.Kind+"@"+f.Addr.String()+fmt.Sprint(f.Errno))
		}
		res.Nontrivial = append(res.Nontrivial, cfg.String()+"|"+strings.Join(key, "+"))
		rf := rollbackFaulted(ir)
		if rf {
			res.Probes["rollback_step_faulted"]++
		}
		for _, e := range ir.r.Events {
			if e.Op == "rename" && strings.Contains(e.Path, "backup") {
				res.Probes["restore_from_backup_reached"]++
				break
			}
		}
		vs := installOracle(ir, ref, ff, rf)
		res.Violations = append(res.Violations, vs...)
		if len(res.Samples) == 0 && (ir.r.Err != nil) {
			res.Samples = append(res.Samples, map[string]any{"config": cfg.String(), "faults": key, "returned_error": firstLine(fmt.Sprint(ir.r.Err)), "events": eventSummary(ir.r.Events, 30), "diff": simfs.Diff(ir.r.S0, ir.r.S1), "violations": len(vs)})
		}
		return true
	}
	for _, f := range faults {
		f := f
		ok := run([]simfs.Fault{f}, func(ir *installRun) bool {
			// single fault: it hit the rollback only if the natural failure still shows in the error
			return natural && ir.r.Err != nil && strings.Contains(ir.r.Err.Error(), natCore)
		})
		if !ok {
			return res
		}
	}
	if natural {
		return res
	}
	// R2 for successful configs: forward ERR x ERR inside what follows
	for i := 0; i < u.Double && len(faults) > 0; i++ {
		f1 := faults[rng.IntN(len(faults))]
		if f1.Kind != simfs.KErr {
			continue
		}
		r1, err := engine.Run(cfg, engine.Options{Faults: []simfs.Fault{f1}})
		if err != nil {
			res.Trouble = err.Error()
			return res
		}
		res.Evaluations++
		if len(r1.Fired) == 0 || (r1.Err == nil && !r1.Panicked) {
			continue
		}
		var after []simfs.Event
		seqFault := 0
		for _, e := range r1.Events {
			if e.Fault != "" {
				seqFault = e.Seq
			}
		}
		for _, e := range r1.Events {
			if e.Seq > seqFault && e.Op != "read" && e.Op != "pread" {
				after = append(after, e)
			}
		}
		if len(after) == 0 {
			continue
		}
		e2 := after[rng.IntN(len(after))]
		f2 := simfs.Fault{Addr: e2.Addr(), Kind: simfs.KErr, Errno: int(simfs.ErrnoAt(e2.Op, e2.Seq)), Seq: e2.Seq}
		if f2.Addr == f1.Addr {
			continue
		}
		if !run([]simfs.Fault{f1, f2}, func(ir *installRun) bool { return true }) {
			return res
		}
	}
	return res
}

func mustJSON(v any) json.RawMessage {
	b, _ := json.Marshal(v)
	return b
}

func (c06) Replay(payload json.RawMessage) ([]core.Violation, error) {
	var rp C06Replay
	if err := json.Unmarshal(payload, &rp); err != nil {
		return nil, err
	}
	ref, err := runInstall(rp.Cfg, nil)
	if err != nil {
		return nil, err
	}
	o := ops.Get(rp.Cfg.Op)
	natural := ref.r.Err != nil || ref.r.Panicked
	if len(rp.Faults) == 0 {
		if natural != o.NaturalFail {
			return []core.Violation{{Property: "C06", Class: "unexpected-outcome", Detail: fmt.Sprint(ref.r.Err)}}, nil
		}
		return installOracle(ref, ref, nil, false), nil
	}
	ir, err := runInstall(rp.Cfg, rp.Faults)
	if err != nil {
		return nil, err
	}
	fmt.Printf("replay %s: fired=%d/%d err=%v\n", rp.Cfg, len(ir.r.Fired), len(rp.Faults), ir.r.Err)
	for _, e := range eventSummary(ir.r.Events, 120) {
		fmt.Println("   ", e)
	}
	for _, d := range simfs.Diff(ir.r.S0, ir.r.S1) {
		fmt.Println("    diff:", d)
	}
	var ks []string
	for k := range ir.rep1 {
		ks = append(ks, k)
	}
	sort.Strings(ks)
	for _, k := range ks {
		fmt.Printf("    rep %s = %s (before: %s)\n", k, ir.rep1[k], ir.rep0[k])
	}
	if len(ir.r.Fired) < len(rp.Faults) {
		return nil, fmt.Errorf("replay diverged: only %d of %d faults reached their address", len(ir.r.Fired), len(rp.Faults))
	}
	rf := len(rp.Faults) > 1 || (natural && ir.r.Err != nil && strings.Contains(ir.r.Err.Error(), naturalCore(ref.r.Err)))
	return installOracle(ir, ref, rp.Faults, rf), nil
}

func (c06) Minimise(v core.Violation, budget int) json.RawMessage {
	var rp C06Replay
	if json.Unmarshal(v.Replay, &rp) != nil || len(rp.Faults) < 2 {
		return nil
	}
	for i := range rp.Faults {
		cand := rp
		cand.Faults = append(append([]simfs.Fault{}, rp.Faults[:i]...), rp.Faults[i+1:]...)
		b, _ := json.Marshal(cand)
		vs, err := c06{}.Replay(b)
		if err != nil {
			continue
		}
		for _, x := range vs {
			if x.Class == v.Class {
				return b
			}
		}
	}
	return nil
}
