// Package fsprops holds the properties decided on the simfs engine: C01, C02, C03.
package fsprops

import (
	"encoding/json"
	"fmt"
	"math/rand/v2"
	"path/filepath"
	"sort"
	"strings"
	"syscall"

	"verif/core"
	"verif/engine"
	"verif/ops"
	"verif/simfs"
)

// ---------------------------------------------------------------- C01

type c01 struct{}

func init() { core.Register(c01{}) }

func (c01) ID() string    { return "C01" }
func (c01) Level() string { return "fault_enumeration" }
func (c01) Rule() string {
	return "per sampled op config (operation x path relation): one fault-free recording run, then one run per (event, fault kind) of that recording: ERR at every intercepted file-system call, PANIC at every call, SHORTWRITE and ENOSPC_FROM at every write/create (reads capped per config in quick); thorough adds every errno of the kind, PANIC_AFTER and double faults (second fault inside the cleanup that follows the first). A case is non-trivial and distinct when its (config, fault address, kind) is new AND the fault fired inside the operation AND the operation failed or panicked."
}
func (c01) Assumptions() []string {
	return []string{
		"single-fault space is complete per sampled configuration (except capped read events in quick), configurations are sampled",
		"the file system is a real tmpfs directory; a fault replaces the real call with an error/panic",
		"event addresses (kind, normalised path, occurrence) are stable between the recording and the fault run; a fault that does not fire is counted as unfired, never as a pass of the oracle",
		"files under the sandbox TMPDIR are reported but only output/input directories are checked for leftovers, as the property says",
	}
}
func (c01) RealVsStub() map[string]string {
	return map[string]string{
		"pdfcpu pkg/api, pkg/pdfcpu, pkg/cli": "real, unmodified, compiled from /repo working tree",
		"package os":                          "real, with pass-through wrappers added by build overlay (fault decision only)",
		"file system":                         "real tmpfs directory per run",
		"faults":                              "simulated: the call is replaced by an errno / short write / panic",
	}
}

// C01Unit is one op config plus enumeration knobs.
type C01Unit struct {
	Cfg       engine.Config `json:"cfg"`
	MaxReads  int           `json:"max_reads"`  // cap on faulted read events (0 = all)
	MaxWrites int           `json:"max_writes"` // cap on faulted write events (0 = all); first and last always kept
	AllErrnos bool          `json:"all_errnos"`
	After     bool          `json:"panic_after"`
	Double    int           `json:"double"` // number of sampled double-fault runs
	Seed      int64         `json:"seed"`
}

// aliasOps get, also under faults and crashes, the relations in which the output is the input under
// another spelling or link, and an output path that is a symbolic link to an existing file: fallbacks
// that are taken only after a failure (writing the output directly when no staging file can be
// created) do their damage exactly there.
var aliasOps = map[string]bool{"optimize": true, "rotate": true, "encrypt": true, "attach-add": true, "trim": true, "nup": true, "copyfile": true}

var aliasRels = []string{ops.RelDotSlash, ops.RelRelAbs, ops.RelSymlink, ops.RelHardlink}

func extraRels(n string, o *ops.Op) []string {
	var rr []string
	if o.Family == "single" && strings.HasPrefix(n, "cli-stdin-") {
		rr = append(rr, ops.RelExistingLink)
	}
	if aliasOps[n] {
		rr = append(rr, ops.RelExistingLink)
		if o.Family == "single" {
			rr = append(rr, aliasRels...)
		}
	}
	return rr
}

func allConfigs() []engine.Config {
	var cc []engine.Config
	for _, n := range ops.Names() {
		o := ops.Get(n)
		if o.Family == "install" {
			continue // C06/C07/C02
		}
		for _, rel := range o.Rels {
			cc = append(cc, engine.Config{Op: n, Rel: rel})
		}
		for _, rel := range extraRels(n, o) {
			cc = append(cc, engine.Config{Op: n, Rel: rel})
		}
	}
	return cc
}

func (c01) Units(tier string, seed int64) ([]core.Unit, error) {
	var units []core.Unit
	cfgs := allConfigs()
	rng := rand.New(rand.NewPCG(uint64(seed), 0xC01))
	for _, cfg := range cfgs {
		u := C01Unit{Cfg: cfg, Seed: int64(rng.Uint64() >> 1)}
		if tier == "quick" {
			u.MaxReads = 6
			u.MaxWrites = 6
			// quick: every op, but only a seeded half of the path relations of big ops
		} else {
			u.MaxReads = 60
			u.MaxWrites = 40
			u.AllErrnos = true
			u.After = true
			u.Double = 40
		}
		b, _ := json.Marshal(u)
		units = append(units, b)
	}
	return units, nil
}

// C01Replay is the replay payload.
type C01Replay struct {
	Cfg    engine.Config `json:"cfg"`
	Faults []simfs.Fault `json:"faults"`
	Events []string      `json:"event_log,omitempty"`
}

func pathKind(rel string, s0 simfs.Snap) string {
	base := filepath.Base(rel)
	switch {
	case rel == "in" || rel == "out" || rel == "tmp":
		return "dir"
	case strings.HasPrefix(rel, "in/in"):
		return "input"
	case strings.HasPrefix(rel, "in/aux_"):
		return "aux-input"
	case base == "bystander.bin" || base == "bystander.txt":
		return "bystander"
	case strings.HasPrefix(rel, "tmp/"):
		return "tmpdir"
	case strings.HasPrefix(rel, "out/"):
		if _, ok := s0[rel]; ok {
			return "preexisting-output"
		}
		if simfs.IsHidden(rel) {
			return "staging"
		}
		return "output"
	case simfs.IsHidden(rel):
		return "staging"
	}
	return "other"
}

func eventSummary(evs []simfs.Event, max int) []string {
	var out []string
	for _, e := range evs {
		if (e.Op == "read" || e.Op == "write") && e.Fault == "" {
			continue
		}
		out = append(out, e.String())
	}
	if len(out) > max {
		out = append(out[:max/2], append([]string{"..."}, out[len(out)-max/2:]...)...)
	}
	return out
}

// failedOracle evaluates C01's clauses on a run that returned an error or panicked.
// rec is the fault-free recording of the same config (nil if none).
func failedOracle(r, rec *engine.Result, faults []simfs.Fault, alts ...*engine.Result) []core.Violation {
	// alts: further reference runs whose outputs count as "what the operation publishes" - for a run with
	// two faults the run with the first fault alone (a read error that the operation absorbs can change
	// what an earlier part holds; whether it may is not C01's subject)
	sameAsRef := func(k string, e1 simfs.Entry) bool {
		for _, a := range alts {
			if a == nil {
				continue
			}
			if ea, ok := a.S1[k]; ok && ea.Type == e1.Type && ea.Sum == e1.Sum {
				return true
			}
		}
		return false
	}
	var vs []core.Violation
	o := ops.Get(r.Cfg.Op)
	mk := func(class, sigTail, detail string) {
		fk := "natural"
		if len(faults) > 0 {
			var parts []string
			for _, f := range faults {
				parts = append(parts, f.Kind+"@"+f.Addr.Op+"("+pathKindNorm(f.Addr.Path)+")")
			}
			fk = strings.Join(parts, "+")
		}
		if r.Panicked && !r.Injected {
			// the operation aborted with a panic that pdfcpu raised by itself (after an injected error)
			fk += "=>OWNPANIC"
		}
		sig := fmt.Sprintf("%s|%s|%s|%s|%s|%s", o.Family, r.Cfg.Op, r.Cfg.Rel, fk, class, sigTail)
		rp, _ := json.Marshal(C01Replay{Cfg: r.Cfg, Faults: faults, Events: eventSummary(r.Events, 60)})
		var fs []string
		for _, f := range faults {
			fs = append(fs, f.String())
		}
		d := fmt.Sprintf("%s faults=[%s]\nreturned err=%v panicked=%v\n%s", r.Cfg, strings.Join(fs, "; "), r.Err, r.Panicked, detail)
		vs = append(vs, core.Violation{Property: "C01", Class: class, Signature: sig, Detail: d, Replay: rp})
	}
	// A run-time panic that pdfcpu raises by itself because of an injected error (e.g. a nil
	// dereference after a swallowed read error) is an aborted operation like any other: C01 asks what
	// it leaves behind, not whether it panics (that is C08's subject). It is counted as a probe by the
	// caller and the file-system clauses below are checked as usual.
	// relaxation (a): path whose removal was the injected fault may remain
	unremovable := map[string]bool{}
	for _, f := range r.Fired {
		if f.Kind == simfs.KErr && (f.Addr.Op == "remove" || f.Addr.Op == "removeall") {
			unremovable[f.Addr.Path] = true
		}
	}
	// clause 1: everything that existed is unchanged
	var keys []string
	for k := range r.S0 {
		keys = append(keys, k)
	}
	sort.Strings(keys)
	for _, k := range keys {
		e0 := r.S0[k]
		e1, ok := r.S1[k]
		kind := pathKind(k, r.S0)
		if kind == "tmpdir" {
			continue
		}
		if !ok {
			mk("damaged", kind+":missing", fmt.Sprintf("%s (%s) existed before the call and is gone; was %s", k, kind, e0))
			continue
		}
		if !simfs.SameEntry(e0, e1) {
			how := "changed"
			if rec != nil && kind == "preexisting-output" && e1.Type == "file" {
				// an earlier part of a multi-output operation was published over it, completely
				if er, ok := rec.S1[k]; ok && er.Type == e1.Type && (er.Sum == e1.Sum || r.ValidPDF[k] || sameAsRef(k, e1)) {
					how = "replaced-by-complete-earlier-output"
				} else if !ok && expectedName(rec, k) && r.ValidPDF[k] {
					how = "replaced-by-complete-earlier-output" // a complete intermediate output (merge mode)
				}
			}
			mk("damaged", kind+":"+how, fmt.Sprintf("%s (%s) changed: %s -> %s [%s]", k, kind, e0, e1, how))
		}
	}
	// clause 2/3: nothing new remains
	keys = keys[:0]
	for k := range r.S1 {
		if _, ok := r.S0[k]; !ok {
			keys = append(keys, k)
		}
	}
	sort.Strings(keys)
	for _, k := range keys {
		kind := pathKind(k, r.S0)
		if kind == "tmpdir" {
			continue
		}
		norm := normRel(k)
		if unremovable[norm] || underAny(norm, unremovable) {
			continue
		}
		e1 := r.S1[k]
		switch kind {
		case "staging":
			mk("leftover-staging", "", fmt.Sprintf("staging/temporary file remains: %s (%s)", k, e1))
		default:
			sub := "partial-or-unexpected"
			if rec != nil {
				// "complete earlier output": a path the fault-free run also produces, holding a complete
				// result (byte-equal for deterministic outputs, a validating PDF otherwise)
				if er, ok := rec.S1[k]; ok && er.Type == e1.Type {
					if e1.Type == "dir" || er.Sum == e1.Sum || r.ValidPDF[k] || sameAsRef(k, e1) {
						sub = "complete-earlier-output"
					}
				}
			}
			mk("leftover-output", sub, fmt.Sprintf("new path remains after failure: %s (%s) [%s]", k, e1, sub))
		}
	}
	return vs
}

func underAny(p string, set map[string]bool) bool {
	for k := range set {
		if strings.HasPrefix(p, k+"/") {
			return true
		}
	}
	return false
}

func normRel(rel string) string {
	parts := strings.Split(rel, "/")
	for i := range parts {
		parts[i] = simfs.NormBase(parts[i])
	}
	return strings.Join(parts, "/")
}

// pathKindNorm classifies a normalised event path for signatures.
func pathKindNorm(p string) string {
	base := filepath.Base(p)
	switch {
	case strings.HasPrefix(p, "in/in"):
		return "input"
	case strings.HasPrefix(p, "in/aux_"):
		return "aux"
	case strings.HasPrefix(base, "."):
		return "staging"
	case strings.HasPrefix(p, "tmp"):
		return "tmp"
	case p == "out" || p == "in":
		return "dir"
	case strings.HasPrefix(p, "out/"):
		return "output"
	}
	return "other"
}

// expectedName: the fault-free run creates a file of this name in the output directory.
func expectedName(rec *engine.Result, rel string) bool {
	for _, n := range append(populateFrom(rec), rec.Cfg.Populate...) {
		if "out/"+n == rel {
			return true
		}
	}
	return false
}

func populateFrom(rec *engine.Result) []string {
	set := map[string]bool{}
	for k, e := range rec.S1 {
		if _, ok := rec.S0[k]; ok || e.Type != "file" || !strings.HasPrefix(k, "out/") {
			continue
		}
		set[strings.TrimPrefix(k, "out/")] = true
	}
	// names the operation creates in the output directory only temporarily (multi-fill merge
	// intermediates) can collide with existing files as well
	for _, e := range rec.Events {
		p := ""
		switch e.Op {
		case "openExcl", "create":
			p = e.Path
		case "rename":
			p = e.Path2
		}
		if strings.HasPrefix(p, "out/") && !simfs.IsHidden(p) && !simfs.HiddenAncestor(p) && e.Err == "" {
			if _, ok := rec.S0[p]; !ok {
				set[strings.TrimPrefix(p, "out/")] = true
			}
		}
	}
	var names []string
	for n := range set {
		names = append(names, n)
	}
	sort.Strings(names)
	return names
}

// faultsFor enumerates the single-fault space of a recording.
func faultsFor(evs []simfs.Event, u C01Unit, rng *rand.Rand) []simfs.Fault {
	var ff []simfs.Fault
	var readIdx []int
	for i, e := range evs {
		if e.Op == "read" || e.Op == "pread" {
			readIdx = append(readIdx, i)
		}
	}
	keepRead := map[int]bool{}
	if u.MaxReads > 0 && len(readIdx) > u.MaxReads {
		rng.Shuffle(len(readIdx), func(i, j int) { readIdx[i], readIdx[j] = readIdx[j], readIdx[i] })
		for _, i := range readIdx[:u.MaxReads] {
			keepRead[i] = true
		}
	} else {
		for _, i := range readIdx {
			keepRead[i] = true
		}
	}
	var writeIdx []int
	for i, e := range evs {
		if e.Op == "write" || e.Op == "pwrite" {
			writeIdx = append(writeIdx, i)
		}
	}
	keepWrite := map[int]bool{}
	if u.MaxWrites > 0 && len(writeIdx) > u.MaxWrites {
		keepWrite[writeIdx[0]] = true
		keepWrite[writeIdx[len(writeIdx)-1]] = true
		rest := append([]int{}, writeIdx[1:len(writeIdx)-1]...)
		rng.Shuffle(len(rest), func(i, j int) { rest[i], rest[j] = rest[j], rest[i] })
		for _, i := range rest[:u.MaxWrites-2] {
			keepWrite[i] = true
		}
	} else {
		for _, i := range writeIdx {
			keepWrite[i] = true
		}
	}
	for i, e := range evs {
		if (e.Op == "read" || e.Op == "pread") && !keepRead[i] {
			continue
		}
		if (e.Op == "write" || e.Op == "pwrite") && !keepWrite[i] {
			continue
		}
		a := e.Addr()
		errnos := simfs.ErrnosFor(e.Op)
		if !u.AllErrnos {
			errnos = []syscall.Errno{simfs.ErrnoAt(e.Op, e.Seq)}
		}
		for _, en := range errnos {
			ff = append(ff, simfs.Fault{Addr: a, Kind: simfs.KErr, Errno: int(en), Seq: e.Seq})
		}
		// A panic "raised inside the operation" originates in pdfcpu's processing code, which runs
		// between the data reads and writes; it cannot originate inside a kernel call of the
		// open/commit/cleanup plumbing. PANIC is therefore injected at (and PANIC_AFTER right after)
		// every data event, which brackets every stretch of processing code.
		if isDataEvent(e.Op) {
			ff = append(ff, simfs.Fault{Addr: a, Kind: simfs.KPanic, Seq: e.Seq})
			if u.After {
				ff = append(ff, simfs.Fault{Addr: a, Kind: simfs.KPanicAfter, Seq: e.Seq})
			}
		}
		switch e.Op {
		case "write", "pwrite":
			ff = append(ff, simfs.Fault{Addr: a, Kind: simfs.KShort, Seq: e.Seq})
			ff = append(ff, simfs.Fault{Addr: a, Kind: simfs.KEnospcFrom, Seq: e.Seq})
		case "openExcl", "create", "mkdir":
			ff = append(ff, simfs.Fault{Addr: a, Kind: simfs.KEnospcFrom, Seq: e.Seq})
		}
	}
	return ff
}

func isDataEvent(op string) bool {
	switch op {
	case "read", "pread", "write", "pwrite", "fstat", "readdir":
		return true
	}
	return false
}

func (c01) RunUnit(raw core.Unit, tier string, seed int64) core.UnitResult {
	var u C01Unit
	res := core.UnitResult{FaultFired: map[string]int{}, EventsSeen: map[string]int{}, Probes: map[string]int{}}
	if err := json.Unmarshal(raw, &u); err != nil {
		res.Trouble = err.Error()
		return res
	}
	rng := rand.New(rand.NewPCG(uint64(u.Seed), 1))
	cfg := u.Cfg
	rec, err := engine.Run(cfg, engine.Options{})
	if err != nil {
		res.Trouble = err.Error()
		return res
	}
	res.Evaluations++
	if ops.Get(cfg.Op).OutDirOp && strings.HasPrefix(cfg.Rel, "populated") && rec.Err == nil && !rec.Panicked {
		cfg.Populate = populateFrom(rec)
		rec, err = engine.Run(cfg, engine.Options{})
		if err != nil {
			res.Trouble = err.Error()
			return res
		}
		res.Evaluations++
	}
	for _, e := range rec.Events {
		res.EventsSeen[e.Op]++
	}
	res.SimSteps += len(rec.Events)
	if rec.Err != nil || rec.Panicked {
		// the op fails without any fault: that is a failed operation too
		res.Probes["natural_failure_configs"]++
		res.Violations = append(res.Violations, failedOracle(rec, nil, nil)...)
		return res
	}
	res.Probes["natural_failure_configs"] += 0
	faults := faultsFor(rec.Events, u, rng)
	type plan struct{ ff []simfs.Fault }
	var plans []plan
	for _, f := range faults {
		plans = append(plans, plan{[]simfs.Fault{f}})
	}
	sampled := false
	runPlan := func(ff []simfs.Fault) *engine.Result {
		r, err := engine.Run(cfg, engine.Options{Faults: ff})
		if err != nil {
			res.Trouble = err.Error()
			return nil
		}
		res.Evaluations++
		res.SimSteps += len(r.Events)
		if len(r.Fired) == 0 {
			if r.Sim.OutOfScope > 0 {
				res.Probes["panic_site_is_copy_plumbing_skipped"]++
			} else {
				res.Probes["fault_not_reached"]++
			}
			return r
		}
		for _, f := range r.Fired {
			res.FaultFired[f.Kind]++
		}
		failed := r.Err != nil || r.Panicked
		if !failed {
			res.Probes["fault_absorbed_op_succeeded"]++
			return r
		}
		var key []string
		for _, f := range ff {
			key = append(key, f.Kind+"@"+f.Addr.String()+fmt.Sprint(f.Errno))
		}
		res.Nontrivial = append(res.Nontrivial, cfg.String()+"|"+strings.Join(key, "+"))
		for _, e := range r.Events {
			if e.Seq > ff[0].Seq && (e.Op == "remove" || e.Op == "removeall") {
				res.Probes["cleanup_remove_after_fault"]++
				break
			}
		}
		if r.Panicked && r.Injected {
			res.Probes["panic_propagated_to_caller"]++
		}
		if r.Panicked && !r.Injected {
			res.Probes["injected_error_made_pdfcpu_panic_by_itself"]++
		}
		vs := failedOracle(r, rec, ff)
		res.Violations = append(res.Violations, vs...)
		if !sampled && len(res.Samples) < 1 {
			sampled = true
			res.Samples = append(res.Samples, map[string]any{
				"config": cfg.String(), "fault": ff[0].String(), "returned_error": fmt.Sprint(r.Err), "panicked": r.Panicked,
				"events": eventSummary(r.Events, 24), "sandbox_diff_after_failure": simfs.Diff(r.S0, r.S1), "violations": len(vs),
			})
		}
		return r
	}
	for _, p := range plans {
		if runPlan(p.ff) == nil {
			return res
		}
	}
	// double faults: first fault anywhere, second on an event that only exists after the first
	for i := 0; i < u.Double && len(faults) > 0; i++ {
		f1 := faults[rng.IntN(len(faults))]
		if f1.Kind != simfs.KErr && f1.Kind != simfs.KShort {
			continue
		}
		r1, err := engine.Run(cfg, engine.Options{Faults: []simfs.Fault{f1}})
		if err != nil {
			res.Trouble = err.Error()
			return res
		}
		res.Evaluations++
		var after []simfs.Event
		for _, e := range r1.Events {
			if e.Seq > f1.Seq && len(r1.Fired) > 0 {
				after = append(after, e)
			}
		}
		if len(after) == 0 {
			continue
		}
		e2 := after[rng.IntN(len(after))]
		f2 := simfs.Fault{Addr: e2.Addr(), Kind: simfs.KErr, Errno: int(simfs.ErrnoAt(e2.Op, e2.Seq)), Seq: e2.Seq}
		if f2.Addr == f1.Addr {
			continue
		}
		res.Probes["double_fault_runs"]++
		r2, err := engine.Run(cfg, engine.Options{Faults: []simfs.Fault{f1, f2}})
		if err != nil {
			res.Trouble = err.Error()
			return res
		}
		res.Evaluations++
		if len(r2.Fired) < 2 || (r2.Err == nil && !r2.Panicked) {
			continue
		}
		res.Nontrivial = append(res.Nontrivial, cfg.String()+"|"+f1.String()+"+"+f2.String())
		for _, v := range failedOracle(r2, rec, []simfs.Fault{f1, f2}, r1) {
			// relaxation (b): with a fault inside cleanup, staging leftovers are unavoidable
			if v.Class == "leftover-staging" || v.Class == "leftover-output" {
				res.Probes["double_fault_leftover_waived"]++
				continue
			}
			res.Violations = append(res.Violations, v)
		}
	}
	return res
}

func (c01) Replay(payload json.RawMessage) ([]core.Violation, error) {
	var rp C01Replay
	if err := json.Unmarshal(payload, &rp); err != nil {
		return nil, err
	}
	cfg := rp.Cfg
	cfg0 := cfg
	cfg0.Populate = nil
	rec, err := engine.Run(cfg, engine.Options{})
	if err != nil {
		return nil, err
	}
	if len(rp.Faults) == 0 {
		if rec.Err == nil && !rec.Panicked {
			return nil, nil
		}
		return failedOracle(rec, nil, nil), nil
	}
	r, err := engine.Run(cfg, engine.Options{Faults: rp.Faults})
	if err != nil {
		return nil, err
	}
	fmt.Printf("replay %s: fired=%d/%d err=%v panicked=%v\n", cfg, len(r.Fired), len(rp.Faults), r.Err, r.Panicked)
	for _, e := range eventSummary(r.Events, 80) {
		fmt.Println("   ", e)
	}
	for _, d := range simfs.Diff(r.S0, r.S1) {
		fmt.Println("    diff:", d)
	}
	if len(r.Fired) < len(rp.Faults) {
		return nil, fmt.Errorf("replay diverged: only %d of %d faults reached their address", len(r.Fired), len(rp.Faults))
	}
	if r.Err == nil && !r.Panicked {
		return nil, nil
	}
	var alt *engine.Result
	if len(rp.Faults) > 1 {
		// the run with the first fault alone (see failedOracle)
		if a, err := engine.Run(cfg, engine.Options{Faults: rp.Faults[:1]}); err == nil {
			alt = a
		}
	}
	return failedOracle(r, rec, rp.Faults, alt), nil
}

func (c01) Minimise(v core.Violation, budget int) json.RawMessage {
	var rp C01Replay
	if json.Unmarshal(v.Replay, &rp) != nil || len(rp.Faults) < 2 {
		return nil
	}
	// try dropping each fault of a double-fault plan
	for i := range rp.Faults {
		cand := rp
		cand.Faults = append(append([]simfs.Fault{}, rp.Faults[:i]...), rp.Faults[i+1:]...)
		b, _ := json.Marshal(cand)
		vs, err := c01{}.Replay(b)
		if err != nil {
			continue
		}
		for _, x := range vs {
			if x.Class == v.Class {
				return b
			}
		}
	}
	return nil
}
