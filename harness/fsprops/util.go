package fsprops

import "crypto/sha256"

func sha256sum(b []byte) [32]byte { return sha256.Sum256(b) }
