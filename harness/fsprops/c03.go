package fsprops

import (
	"bytes"
	"encoding/json"
	"fmt"
	"math/rand/v2"
	"os"
	"path/filepath"
	"regexp"
	"sort"
	"strings"

	"verif/core"
	"verif/engine"
	"verif/ops"
	"verif/pdfobs"
	"verif/simfs"
)

// ---------------------------------------------------------------- C03

type c03 struct{}

func init() { core.Register(c03{}) }

func (c03) ID() string    { return "C03" }
func (c03) Level() string { return "exploration" }
func (c03) Rule() string {
	return "fault-free control leg of the file-system simulator: operation x input/output path relation (in-place, identical string, new, existing, ./ spelling, relative-vs-absolute with cwd in the input dir, symlink to input, hard link to input) x destination mode (0644 0600 0640 0444 0755), with legal short reads injected on a seeded subset of read calls (buggify). Each run is compared with a reference run of the same operation into a fresh output. A case is distinct by (op, relation, mode) and non-trivial when the operation succeeded and produced or replaced a destination."
}
func (c03) Assumptions() []string {
	return []string{
		"'complete output' is judged through pdfcpu's own reader/validator (page count, per-page size, rotation, crop box, decoded content hash, keywords, properties, attachments, layout/mode), not byte equality: outputs carry random identifiers and timestamps",
		"no fault and no schedule is varied here except legal short reads; this is the control leg that C01/C02 relax",
	}
}
func (c03) RealVsStub() map[string]string {
	return map[string]string{"pdfcpu": "real, unmodified", "file system": "real tmpfs directory", "short reads": "simulated on a seeded subset of read calls (legal POSIX behaviour)"}
}

// C03Unit is one (op, rel, mode) case.
type C03Unit struct {
	Cfg       engine.Config `json:"cfg"`
	ShortRead int           `json:"short_read_every"`
}

var c03Modes = []uint32{0644, 0600, 0640, 0444, 0755, 0664, 0666, 0777}

func (c03) Units(tier string, seed int64) ([]core.Unit, error) {
	var units []core.Unit
	rng := rand.New(rand.NewPCG(uint64(seed), 0xC03))
	for _, n := range ops.Names() {
		o := ops.Get(n)
		if o.Family == "install" {
			continue
		}
		rels := append([]string{}, o.Rels...)
		if o.Family == "single" {
			rels = append(rels, ops.RelDotSlash, ops.RelRelAbs, ops.RelSymlink, ops.RelHardlink)
		}
		for _, rel := range rels {
			modes := c03Modes
			if tier == "quick" {
				// one seeded mode per (op, rel) besides the default
				modes = []uint32{c03Modes[rng.IntN(len(c03Modes))]}
			}
			if rel == ops.RelNew || (o.OutDirOp && rel != "populated") {
				modes = []uint32{0}
			}
			for _, m := range modes {
				u := C03Unit{Cfg: engine.Config{Op: n, Rel: rel, OutMode: m}}
				if rng.IntN(2) == 0 {
					u.ShortRead = 2 + rng.IntN(5)
				}
				b, _ := json.Marshal(u)
				units = append(units, b)
			}
		}
	}
	return units, nil
}

var (
	reJSONCreation = regexp.MustCompile(`"creation":\s*"[^"]*"`)
	reJSONSource   = regexp.MustCompile(`"source":\s*"[^"]*"`)
)

// observeOutput reduces an output file to a comparable digest.
func observeOutput(path string, o *ops.Op) (string, error) {
	switch filepath.Ext(path) {
	case ".pdf":
		d, err := pdfobs.Observe(path, o.OutPW[0], o.OutPW[1])
		if err != nil {
			return "", err
		}
		return d.Digest(), nil
	case ".json":
		b, err := os.ReadFile(path)
		if err != nil {
			return "", err
		}
		if !json.Valid(b) {
			return "", fmt.Errorf("not valid JSON")
		}
		b = reJSONCreation.ReplaceAll(b, []byte(`"creation":"*"`))
		b = reJSONSource.ReplaceAll(b, []byte(`"source":"*"`))
		// pdfcpu's exports list fields in Go map order: compare order-insensitively
		var v any
		if err := json.Unmarshal(b, &v); err != nil {
			return "", err
		}
		c, _ := json.MarshalIndent(canonJSON(v), "", " ")
		return string(c), nil
	}
	b, err := os.ReadFile(path)
	if err != nil {
		return "", err
	}
	return fmt.Sprintf("%x", simfsSum(b)), nil
}

// canonJSON sorts every array by the serialisation of its (canonicalised) elements.
func canonJSON(v any) any {
	switch x := v.(type) {
	case map[string]any:
		for k, e := range x {
			x[k] = canonJSON(e)
		}
		return x
	case []any:
		type kv struct {
			k string
			v any
		}
		var kk []kv
		for _, e := range x {
			c := canonJSON(e)
			b, _ := json.Marshal(c)
			kk = append(kk, kv{string(b), c})
		}
		sort.Slice(kk, func(i, j int) bool { return kk[i].k < kk[j].k })
		out := make([]any, len(kk))
		for i := range kk {
			out[i] = kk[i].v
		}
		return out
	}
	return v
}

// lineDiff shows the lines that differ between two digests.
func lineDiff(got, want string) string {
	g, w := strings.Split(got, "\n"), strings.Split(want, "\n")
	var sb strings.Builder
	n := 0
	for i := 0; i < len(g) || i < len(w); i++ {
		var a, b string
		if i < len(g) {
			a = g[i]
		}
		if i < len(w) {
			b = w[i]
		}
		if a != b {
			fmt.Fprintf(&sb, "line %d:\n  got  %s\n  want %s\n", i+1, a, b)
			if n++; n >= 8 {
				sb.WriteString("...\n")
				break
			}
		}
	}
	return sb.String()
}

func simfsSum(b []byte) []byte {
	h := sha256sum(b)
	return h[:8]
}

// reference digests per op (and per output name for outdir ops), computed once per process.
var refCache = map[string]map[string]string{}

func referenceFor(opName, forRel string) (map[string]string, error) {
	o := ops.Get(opName)
	rel := ops.RelNew
	key := opName
	if forRel == "append" {
		// the result depends on the previous content of the destination: compare with another append
		key += "/append"
	}
	if r, ok := refCache[key]; ok {
		return r, nil
	}
	if forRel == "append" {
		rel = "append"
	} else if o.OutDirOp {
		rel = "emptydir"
	} else {
		found := false
		for _, r := range o.Rels {
			if r == ops.RelNew {
				found = true
			}
		}
		if !found {
			rel = o.Rels[0]
		}
	}
	out := map[string]string{}
	var oerr error
	_, err := engine.Run(engine.Config{Op: opName, Rel: rel}, engine.Options{KeepRoot: false, AfterRun: func(r *engine.Result) {
		if r.Err != nil || r.Panicked {
			oerr = fmt.Errorf("reference run of %s failed: %v", opName, r.Err)
			return
		}
		if o.OutDirOp {
			for k, e := range r.S1 {
				if _, old := r.S0[k]; old || e.Type != "file" {
					continue
				}
				d, err := observeOutput(filepath.Join(r.Env.Root, k), o)
				if err != nil {
					oerr = fmt.Errorf("reference output %s of %s: %v", k, opName, err)
					return
				}
				out[k] = d
			}
			return
		}
		d, err := observeOutput(r.Env.Dest, o)
		if err != nil {
			oerr = fmt.Errorf("reference output of %s: %v", opName, err)
			return
		}
		out["dest"] = d
	}})
	if err != nil {
		return nil, err
	}
	if oerr != nil {
		return nil, oerr
	}
	refCache[key] = out
	return out, nil
}

// C03Replay payload.
type C03Replay = C03Unit

func c03Run(u C03Unit) (vs []core.Violation, nontrivial bool, sample any, steps int, err error) {
	cfg := u.Cfg
	o := ops.Get(cfg.Op)
	mk := func(class, tail, detail string) {
		sig := fmt.Sprintf("%s|%s|%s|%04o|%s|%s", o.Family, cfg.Op, cfg.Rel, cfg.OutMode, class, tail)
		rp, _ := json.Marshal(u)
		vs = append(vs, core.Violation{Property: "C03", Class: class, Signature: sig, Detail: fmt.Sprintf("%s shortread=%d\n%s", cfg, u.ShortRead, detail), Replay: rp})
	}
	ref, err := referenceFor(cfg.Op, cfg.Rel)
	if err != nil {
		// the operation does not even succeed into a fresh output: that is a failed C03 clause 1
		mk("operation-fails", "", err.Error())
		return vs, false, nil, 0, nil
	}
	if o.OutDirOp && strings.HasPrefix(cfg.Rel, "populated") {
		rec, err := engine.Run(engine.Config{Op: cfg.Op, Rel: "emptydir"}, engine.Options{})
		if err != nil {
			return nil, false, nil, 0, err
		}
		cfg.Populate = populateFrom(rec)
	}
	var destBefore, destAfter os.FileInfo
	var inodeIn uint64
	digests := map[string]string{}
	var obsErr = map[string]error{}
	r, rerr := engine.Run(cfg, engine.Options{ShortReadEvery: u.ShortRead,
		BeforeRun: func(r *engine.Result) {
			if r.Env.Dest != "" {
				destBefore, _ = os.Stat(r.Env.Dest)
			}
			if len(r.Env.In) > 0 {
				if e, ok := r.S0["in/"+filepath.Base(r.Env.In[0])]; ok {
					inodeIn = e.Ino
				}
			}
		},
		AfterRun: func(r *engine.Result) {
			if r.Err != nil || r.Panicked {
				return
			}
			if o.OutDirOp {
				for k, e := range r.S1 {
					e0, old := r.S0[k]
					if (old && simfs.SameEntry(e0, e)) || e.Type != "file" || !strings.HasPrefix(k, "out/") {
						continue
					}
					digests[k], obsErr[k] = observeOutput(filepath.Join(r.Env.Root, k), o)
				}
				return
			}
			destAfter, _ = os.Stat(r.Env.Dest)
			digests["dest"], obsErr["dest"] = observeOutput(r.Env.Dest, o)
			if r.Env.Dest != r.Env.In[0] && (cfg.Rel == ops.RelSymlink || cfg.Rel == ops.RelHardlink) {
				digests["input"], obsErr["input"] = observeOutput(r.Env.In[0], o)
			}
		}})
	if rerr != nil {
		return nil, false, nil, 0, rerr
	}
	steps = len(r.Events)
	if r.Panicked {
		mk("operation-panics", "", fmt.Sprintf("panic: %v\n%s", r.PanicVal, r.Stack))
		return vs, false, nil, steps, nil
	}
	if r.Err != nil {
		mk("operation-fails", "", fmt.Sprintf("the operation fails for this path relation although it succeeds into a fresh output: %v", r.Err))
		return vs, false, nil, steps, nil
	}
	nontrivial = true
	destRel := ""
	if !o.OutDirOp {
		destRel, _ = filepath.Rel(r.Env.Root, r.Env.Dest)
	}
	inRel := ""
	if len(r.Env.In) > 0 {
		inRel, _ = filepath.Rel(r.Env.Root, r.Env.In[0])
	}
	aliased := cfg.Rel == ops.RelInPlace || cfg.Rel == ops.RelSame || cfg.Rel == ops.RelDotSlash || cfg.Rel == ops.RelRelAbs || cfg.Rel == ops.RelSymlink || cfg.Rel == ops.RelHardlink
	// (1) destination holds the complete output
	if o.OutDirOp {
		for k, want := range ref {
			got, ok := digests[k]
			if !ok {
				mk("output-missing", "", fmt.Sprintf("expected output %s was not produced (or an existing file of that name was left untouched)", k))
				continue
			}
			if obsErr[k] != nil {
				mk("output-unreadable", "", fmt.Sprintf("output %s cannot be read back: %v", k, obsErr[k]))
			} else if got != want {
				mk("output-differs", "", fmt.Sprintf("output %s differs from the reference run:\n%s", k, lineDiff(got, want)))
			}
		}
		// (2) a replaced pre-existing file keeps its permission bits
		for k, e0 := range r.S0 {
			if e1, ok := r.S1[k]; ok && e0.Type == "file" && e1.Type == "file" && !simfs.SameEntry(e0, e1) && e0.Perm != e1.Perm {
				mk("mode-changed", "", fmt.Sprintf("replaced output %s had mode %04o before and %04o after", k, e0.Perm, e1.Perm))
			}
		}
	} else {
		if obsErr["dest"] != nil {
			mk("output-unreadable", "", fmt.Sprintf("destination %s cannot be read back: %v", destRel, obsErr["dest"]))
		} else if digests["dest"] != ref["dest"] {
			mk("output-differs", "", fmt.Sprintf("destination %s differs from the reference run of the same operation:\n%s", destRel, lineDiff(digests["dest"], ref["dest"])))
		}
		if e, ok := r.S1[destRel]; ok && e.Type != "file" && cfg.Rel != ops.RelSymlink {
			mk("output-not-regular", "", fmt.Sprintf("destination %s is %s", destRel, e))
		}
		// (2) an existing destination keeps its permission bits
		if destBefore != nil && destAfter != nil && destBefore.Mode().Perm() != destAfter.Mode().Perm() {
			mk("mode-changed", "", fmt.Sprintf("destination %s had mode %04o before and %04o after", destRel, destBefore.Mode().Perm(), destAfter.Mode().Perm()))
		}
	}
	// (3)+(4): everything else unchanged, nothing else new
	for _, ch := range simfs.Changes(r.S0, r.S1) {
		p, d := ch.Path, ch.String()
		if strings.HasPrefix(p, "tmp/") {
			continue
		}
		switch {
		case o.OutDirOp:
			if _, isOut := ref[p]; isOut {
				continue
			}
			// multi-fill merge mode removes its intermediates: those are reference outputs too
		case p == destRel:
			continue
		case aliased && p == inRel:
			// the input is the same file as the destination: it may hold the new bytes
			if d, ok := digests["input"]; ok && obsErr["input"] == nil && (d == ref["dest"]) {
				continue
			}
			if cfg.Rel == ops.RelHardlink || cfg.Rel == ops.RelSymlink {
				// complete old bytes are fine as well; anything else is corruption
				e0, e1 := r.S0[p], r.S1[p]
				if simfs.SameEntry(e0, e1) {
					continue
				}
				mk("aliased-input-corrupted", "", fmt.Sprintf("input %s holds neither its old bytes nor the complete result: %s (%v)", p, d, obsErr["input"]))
				continue
			}
		}
		kind := pathKind(p, r.S0)
		if ch.Kind == "new" {
			mk("stray-file", kind, "after success: "+d)
		} else {
			mk("bystander-changed", kind, "after success: "+d)
		}
	}
	// (5) the input's inode is never written in place
	for _, e := range r.Events {
		switch e.Op {
		case "create", "openTrunc", "openW", "truncate":
			if sameInode(e.Raw, inodeIn, r) {
				mk("input-written-in-place", e.Op, fmt.Sprintf("the input file is opened for writing/truncation in place: %s", e))
			}
		}
	}
	sample = map[string]any{"config": cfg.String(), "short_read_every": u.ShortRead, "events": eventSummary(r.Events, 16), "diff": simfs.Diff(r.S0, r.S1)}
	return vs, nontrivial, sample, steps, nil
}

func sameInode(raw string, ino uint64, r *engine.Result) bool {
	if ino == 0 {
		return false
	}
	rel, err := filepath.Rel(r.Env.Root, raw)
	if err != nil {
		return false
	}
	rel = filepath.Clean(rel)
	if e, ok := r.S0[rel]; ok {
		if e.Type == "symlink" {
			if t, ok := r.S0[relOf(r.Env.Root, e.Target)]; ok {
				return t.Ino == ino
			}
		}
		return e.Ino == ino
	}
	return false
}

func relOf(root, p string) string {
	r, err := filepath.Rel(root, p)
	if err != nil {
		return p
	}
	return r
}

func clip(s string) string {
	if len(s) > 1500 {
		return s[:1500] + "...\n"
	}
	return s
}

func (c03) RunUnit(raw core.Unit, tier string, seed int64) core.UnitResult {
	var u C03Unit
	res := core.UnitResult{FaultFired: map[string]int{}, EventsSeen: map[string]int{}, Probes: map[string]int{}}
	if err := json.Unmarshal(raw, &u); err != nil {
		res.Trouble = err.Error()
		return res
	}
	vs, nt, sample, steps, err := c03Run(u)
	if err != nil {
		res.Trouble = err.Error()
		return res
	}
	res.Evaluations = 1
	res.SimSteps = steps
	if nt {
		res.Nontrivial = append(res.Nontrivial, fmt.Sprintf("%s|%d", u.Cfg, u.ShortRead))
	}
	if u.ShortRead > 0 {
		res.FaultFired["SHORTREAD-config"]++
	}
	res.Probes["rel_"+u.Cfg.Rel]++
	if sample != nil {
		res.Samples = append(res.Samples, sample)
	}
	res.Violations = vs
	return res
}

func (c03) Replay(payload json.RawMessage) ([]core.Violation, error) {
	var u C03Unit
	if err := json.Unmarshal(payload, &u); err != nil {
		return nil, err
	}
	vs, _, sample, _, err := c03Run(u)
	if sample != nil {
		b, _ := json.MarshalIndent(sample, "", " ")
		fmt.Println(string(b))
	}
	return vs, err
}

func (c03) Minimise(v core.Violation, budget int) json.RawMessage {
	// try without short reads
	var u C03Unit
	if json.Unmarshal(v.Replay, &u) != nil || u.ShortRead == 0 {
		return nil
	}
	u.ShortRead = 0
	vs, _, _, _, err := c03Run(u)
	if err != nil {
		return nil
	}
	for _, x := range vs {
		if x.Class == v.Class {
			b, _ := json.Marshal(u)
			return b
		}
	}
	return nil
}

var _ = bytes.Equal
