#!/bin/bash
# mutcheck.sh <worktree> <patch.diff|none> <tier> <prop> [<prop>...]
# Development aid (not a registered check): builds the harness against a scratch worktree of pdfcpu with a
# seeded change applied and runs the named checks against it. Everything it writes goes to a scratch
# VERIF_HOME under /tmp. The registered checks always use /repo.
set -u
WT=$1; PATCH=$2; TIER=$3; shift 3
export GOFLAGS=-mod=mod GOPROXY=off GOTOOLCHAIN=local
V=/verif
TAG=$(basename $WT)-$$
OUT=/tmp/mutcheck-$TAG; mkdir -p $OUT/.build
git -C $WT checkout -q -- . && git -C $WT clean -fdq
if [ "$PATCH" != "none" ]; then git -C $WT apply "$PATCH" || { echo "patch does not apply"; exit 2; }; fi
sed "s#=> /repo#=> $WT#" $V/harness/go.mod > $OUT/go.mod; cp $V/harness/go.sum $OUT/go.sum
cp $V/known_findings.json $OUT/
VERIF_REPO=$WT python3 $V/harness/overlay/mkoverlay.py "$(go1.26.8 env GOROOT)" $OUT/ov >/dev/null || exit 2
mkdir -p $OUT/ov/instr
(cd $V/harness && go1.26.8 run ./cmd/instr $WT $OUT/ov/instr $OUT/ov/overlay.json >/dev/null) || { echo INSTR-FAILED; git -C $WT checkout -q -- .; exit 2; }
(cd $V/harness && go1.26.8 build -modfile=$OUT/go.mod -overlay $OUT/ov/overlay.json -o $OUT/.build/verifsim ./cmd/verifsim) || { echo BUILD-FAILED; git -C $WT checkout -q -- .; exit 2; }
for p in "$@"; do
  if [ "$p" = "C40" ]; then
    (cd $V/harness && go1.26.8 build -race -modfile=$OUT/go.mod -overlay $OUT/ov/overlay.json -o $OUT/.build/verifsim-race ./cmd/verifsim) || { echo RACE-BUILD-FAILED; exit 2; }
  fi
  VERIF_HOME=$OUT $OUT/.build/verifsim check $p $TIER > $OUT/$p.log 2>&1; rc=$?
  echo "[$TAG] $p $TIER exit=$rc $(grep -c '^VIOLATION' $OUT/$p.log) violation(s): $(grep -m2 'signature=' $OUT/$p.log | sed 's/.*signature=//' | tr '\n' ' ')"
done
git -C $WT checkout -q -- . && git -C $WT clean -fdq
echo "logs: $OUT"
