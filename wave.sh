#!/bin/bash
# wave.sh <PROP> <tier> <n>... : confirm delivered mutants (if not stored yet) and run the property's check against each
P=$1; T=$2; shift 2
for n in "$@"; do
  if [ ! -f /verif/seeded/$P-$n/patch.diff ]; then /verif/confirm_seeded.sh $P $n 2>&1 | grep "^RESULT\|^stored"; fi
  if [ -f /verif/seeded/$P-$n/patch.diff ]; then /verif/mutcheck.sh /tmp/wt-$P /verif/seeded/$P-$n/patch.diff $T $P 2>&1 | grep "^\[" | sed "s/^/$P-$n: /"; fi
done
