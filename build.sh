#!/bin/bash
# Builds the overlay and the simulator binary from /repo's current working tree. Exit 2 on failure.
set -u
export GOFLAGS=-mod=mod GOPROXY=off GOTOOLCHAIN=local GONOSUMDB=* GONOSUMCHECK=1 GOFLAGS="-mod=mod"
V=${VERIF_HOME:-$(cd "$(dirname "$0")" && pwd)}
GO=${VERIF_GO:-go1.26.8}
GOROOT_=$($GO env GOROOT) || { echo "build: $GO not usable" >&2; exit 2; }
mkdir -p $V/.build/ov
exec 9>$V/.build/lock; flock 9
python3 $V/harness/overlay/mkoverlay.py "$GOROOT_" $V/.build/ov || exit 2
cp /repo/go.sum $V/harness/go.sum 2>/dev/null
cd $V/harness || exit 2
# scheduling points at the entry of every function of the module that touches mutated package state
rm -rf $V/.build/ov/instr; mkdir -p $V/.build/ov/instr
if ! $GO run ./cmd/instr /repo $V/.build/ov/instr $V/.build/ov/overlay.json >$V/.build/instr.log 2>&1; then
  cat $V/.build/instr.log >&2; echo "build: instrumentation FAILED (exit 2, not a violation)" >&2; exit 2
fi
if ! $GO build -overlay $V/.build/ov/overlay.json -o $V/.build/verifsim ./cmd/verifsim 2>$V/.build/build.log; then
  cat $V/.build/build.log >&2; echo "build: FAILED (exit 2, not a violation)" >&2; exit 2
fi
if [ "${VERIF_RACE:-0}" = "1" ]; then
  # second build for C40: the same program with the race detector
  if ! $GO build -race -overlay $V/.build/ov/overlay.json -o $V/.build/verifsim-race ./cmd/verifsim 2>$V/.build/build-race.log; then
    cat $V/.build/build-race.log >&2; echo "build (race): FAILED (exit 2, not a violation)" >&2; exit 2
  fi
fi
exit 0
